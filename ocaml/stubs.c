/* C stubs: the extracted model and the real mtbl objects (compiled from /repo's
 * working tree) run in one process; these wrappers expose the real functions. */
#define CAML_NAME_SPACE
#include <caml/mlvalues.h>
#include <caml/memory.h>
#include <caml/alloc.h>
#include <caml/fail.h>
#include <stdint.h>
#include <string.h>
#include <stdlib.h>
#include "mtbl-private.h"

static value mk_string(const uint8_t *p, size_t n)
{
	value s = caml_alloc_string(n);
	memcpy(Bytes_val(s), p, n);
	return s;
}

/* ---- varint / fixed ------------------------------------------------------ */
CAMLprim value vp_varint_encode32(value v)
{
	CAMLparam1(v);
	uint8_t buf[32]; memset(buf, 0xAA, sizeof buf);
	size_t n = mtbl_varint_encode32(buf, (uint32_t) Int64_val(v));
	CAMLreturn(mk_string(buf, n));
}
CAMLprim value vp_varint_encode64(value v)
{
	CAMLparam1(v);
	uint8_t buf[32]; memset(buf, 0xAA, sizeof buf);
	size_t n = mtbl_varint_encode64(buf, (uint64_t) Int64_val(v));
	CAMLreturn(mk_string(buf, n));
}
/* decode from a copy padded with `pad` bytes of 0x80|x so that reads past the
 * logical end stay inside our allocation; returns (value, len) */
CAMLprim value vp_varint_decode32(value s)
{
	CAMLparam1(s); CAMLlocal1(r);
	size_t n = caml_string_length(s);
	uint8_t *buf = malloc(n + 32); memset(buf, 0, n + 32); memcpy(buf, String_val(s), n);
	uint32_t v = 0xdeadbeef; size_t l = mtbl_varint_decode32(buf, &v);
	free(buf);
	r = caml_alloc_tuple(2);
	Store_field(r, 0, caml_copy_int64((int64_t)(uint64_t) v)); Store_field(r, 1, Val_long(l));
	CAMLreturn(r);
}
CAMLprim value vp_varint_decode64(value s)
{
	CAMLparam1(s); CAMLlocal1(r);
	size_t n = caml_string_length(s);
	uint8_t *buf = malloc(n + 32); memset(buf, 0, n + 32); memcpy(buf, String_val(s), n);
	uint64_t v = 0xdeadbeefdeadbeefULL; size_t l = mtbl_varint_decode64(buf, &v);
	free(buf);
	r = caml_alloc_tuple(2);
	Store_field(r, 0, caml_copy_int64((int64_t) v)); Store_field(r, 1, Val_long(l));
	CAMLreturn(r);
}
CAMLprim value vp_varint_length(value v)
{
	return Val_long(mtbl_varint_length((uint64_t) Int64_val(v)));
}
CAMLprim value vp_varint_length_packed(value s)
{
	/* the bytes are copied to the END of a buffer whose following bytes all have the continuation bit set: a decoder
	 * that looks past len_data finds no terminator there (and reads memory it was not given) */
	size_t n = caml_string_length(s);
	uint8_t *raw = malloc(n + 32); memset(raw, 0xAA, n + 32);
	memcpy(raw + 16, String_val(s), n); memset(raw + 16 + n, 0x80, 16);
	size_t r = mtbl_varint_length_packed(raw + 16, n);
	free(raw);
	return Val_long(r);
}
/* the same with a chosen byte behind the buffer: with a byte below 0x80 there, a decoder that looks at data[len_data]
 * (for instance data[0] of an EMPTY buffer) finds a terminator that is not its own */
CAMLprim value vp_varint_length_packed_tail(value s, value tail)
{
	size_t n = caml_string_length(s);
	uint8_t *raw = malloc(n + 32); memset(raw, Long_val(tail), n + 32);
	memcpy(raw + 16, String_val(s), n);
	size_t r = mtbl_varint_length_packed(raw + 16, n);
	free(raw);
	return Val_long(r);
}
CAMLprim value vp_fixed_encode(value bits, value v, value align)
{
	CAMLparam3(bits, v, align);
	uint8_t *raw = aligned_alloc(16, 64); memset(raw, 0xAA, 64);
	uint8_t *p = raw + Long_val(align);
	size_t n = Long_val(bits) == 32 ? mtbl_fixed_encode32(p, (uint32_t) Int64_val(v))
					: mtbl_fixed_encode64(p, (uint64_t) Int64_val(v));
	value s = mk_string(p, n);
	free(raw);
	CAMLreturn(s);
}
CAMLprim value vp_fixed_decode(value bits, value s, value align)
{
	CAMLparam3(bits, s, align);
	uint8_t *raw = aligned_alloc(16, 64); memset(raw, 0xAA, 64);
	uint8_t *p = raw + Long_val(align);
	memcpy(p, String_val(s), caml_string_length(s) > 8 ? 8 : caml_string_length(s));
	uint64_t r = Long_val(bits) == 32 ? (uint64_t) mtbl_fixed_decode32(p) : mtbl_fixed_decode64(p);
	free(raw);
	CAMLreturn(caml_copy_int64((int64_t) r));
}

/* ---- generic handles: C pointers travel as nativeint ------------------------ */
#include <fcntl.h>
#include <unistd.h>
#include <sys/stat.h>
#include <errno.h>
#define PTR(v) ((void *) Nativeint_val(v))
static value mk_ptr(const void *p) { return caml_copy_nativeint((intnat) p); }

/* ---- compression (oracle for the writer model, and C15) --------------------- */
/* returns Some bytes | None */
static value some(value v) { CAMLparam1(v); CAMLlocal1(r); r = caml_alloc(1, 0); Store_field(r, 0, v); CAMLreturn(r); }
CAMLprim value vp_compress(value alg, value use_level, value level, value s)
{
	CAMLparam4(alg, use_level, level, s);
	uint8_t *out = NULL; size_t outlen = 0; mtbl_res r;
	if (Bool_val(use_level))
		r = mtbl_compress_level(Long_val(alg), Long_val(level), (const uint8_t *) String_val(s), caml_string_length(s), &out, &outlen);
	else
		r = mtbl_compress(Long_val(alg), (const uint8_t *) String_val(s), caml_string_length(s), &out, &outlen);
	if (r != mtbl_res_success) CAMLreturn(Val_int(0));
	value res = mk_string(out, outlen); free(out);
	CAMLreturn(some(res));
}
CAMLprim value vp_decompress(value alg, value s)
{
	CAMLparam2(alg, s);
	uint8_t *out = NULL; size_t outlen = 0;
	mtbl_res r = mtbl_decompress(Long_val(alg), (const uint8_t *) String_val(s), caml_string_length(s), &out, &outlen);
	if (r != mtbl_res_success) CAMLreturn(Val_int(0));
	value res = mk_string(out, outlen); free(out);
	CAMLreturn(some(res));
}
CAMLprim value vp_crc32c(value s, value off)
{
	/* checksum of s[off..] : the offset changes the alignment of the buffer */
	return caml_copy_int64((int64_t)(uint64_t) mtbl_crc32c((const uint8_t *) String_val(s) + Long_val(off), caml_string_length(s) - Long_val(off)));
}


/* ---- compression from several threads at once (the library has no documented restriction) ---- */
struct vp_mt_arg { int alg; int rounds; int seed; int failures; };
static void *vp_mt_worker(void *p)
{
	struct vp_mt_arg *a = p;
	unsigned x = 12345u + 7919u * (unsigned) a->seed;
	for (int r = 0; r < a->rounds; r++) {
		x = x * 1103515245u + 12345u;
		size_t n = (x >> 8) % (r % 4 == 0 ? 200000u : 3000u);
		uint8_t *buf = malloc(n + 1);
		for (size_t i = 0; i < n; i++) { x = x * 1103515245u + 12345u; buf[i] = (i % 7 == 0) ? (uint8_t)(x >> 16) : (uint8_t)('a' + (i % 13)); }
		uint8_t *c = NULL, *d = NULL; size_t cl = 0, dl = 0;
		if (mtbl_compress(a->alg, buf, n, &c, &cl) == mtbl_res_success) {
			if (mtbl_decompress(a->alg, c, cl, &d, &dl) != mtbl_res_success || dl != n || (n > 0 && memcmp(d, buf, n) != 0))
				a->failures++;
			free(d); free(c);
		}
		free(buf);
	}
	return NULL;
}
CAMLprim value vp_codec_mt_stress(value alg, value nthreads, value rounds)
{
	int nt = Long_val(nthreads);
	pthread_t th[32]; struct vp_mt_arg args[32];
	if (nt > 32) nt = 32;
	for (int i = 0; i < nt; i++) { args[i].alg = Long_val(alg); args[i].rounds = Long_val(rounds); args[i].seed = i; args[i].failures = 0;
		pthread_create(&th[i], NULL, vp_mt_worker, &args[i]); }
	int f = 0;
	for (int i = 0; i < nt; i++) { pthread_join(th[i], NULL); f += args[i].failures; }
	return Val_long(f);
}

/* ---- thread pool ------------------------------------------------------------ */
CAMLprim value vp_pool_init(value n) { return mk_ptr(mtbl_threadpool_init(Long_val(n))); }
CAMLprim value vp_pool_destroy(value p) { struct mtbl_threadpool *tp = PTR(p); mtbl_threadpool_destroy(&tp); return Val_unit; }

/* ---- writer ------------------------------------------------------------------ */
/* opts: (comp, level_set, level, bs_set, block_size, ri_set, interval, pool ptr) */
CAMLprim value vp_writer_init_fd(value fd, value o)
{
	CAMLparam2(fd, o);
	struct mtbl_writer_options *wo = mtbl_writer_options_init();
	if (Long_val(Field(o, 0)) >= 0) mtbl_writer_options_set_compression(wo, Long_val(Field(o, 0)));
	if (Bool_val(Field(o, 1))) mtbl_writer_options_set_compression_level(wo, Long_val(Field(o, 2)));
	if (Bool_val(Field(o, 3))) mtbl_writer_options_set_block_size(wo, Long_val(Field(o, 4)));
	if (Bool_val(Field(o, 5))) mtbl_writer_options_set_block_restart_interval(wo, Long_val(Field(o, 6)));
	if (PTR(Field(o, 7)) != NULL) mtbl_writer_options_set_threadpool(wo, PTR(Field(o, 7)));
	struct mtbl_writer *w = mtbl_writer_init_fd(Long_val(fd), wo);
	mtbl_writer_options_destroy(&wo);
	CAMLreturn(mk_ptr(w));
}
CAMLprim value vp_writer_init(value path)
{
	return mk_ptr(mtbl_writer_init(String_val(path), NULL));
}
CAMLprim value vp_writer_add(value w, value k, value v)
{
	mtbl_res r = mtbl_writer_add(PTR(w), (const uint8_t *) String_val(k), caml_string_length(k),
				     (const uint8_t *) String_val(v), caml_string_length(v));
	return Val_bool(r == mtbl_res_success);
}
CAMLprim value vp_writer_destroy(value w) { struct mtbl_writer *p = PTR(w); mtbl_writer_destroy(&p); return Val_unit; }

/* raw fd helpers (OCaml's Unix.file_descr is an int on Unix) */
CAMLprim value vp_open_rw(value path, value excl)
{
	int fd = open(String_val(path), O_RDWR | O_CREAT | (Bool_val(excl) ? O_EXCL : 0), 0644);
	return Val_long(fd);
}
CAMLprim value vp_close(value fd) { close(Long_val(fd)); return Val_unit; }
CAMLprim value vp_lseek_set(value fd, value off) { return caml_copy_int64(lseek(Long_val(fd), Int64_val(off), SEEK_SET)); }
CAMLprim value vp_write_str(value fd, value s)
{
	size_t n = caml_string_length(s), done = 0;
	while (done < n) { ssize_t r = write(Long_val(fd), String_val(s) + done, n - done); if (r <= 0) break; done += r; }
	return Val_long(done);
}
CAMLprim value vp_file_size(value fd) { struct stat st; if (fstat(Long_val(fd), &st) != 0) return caml_copy_int64(-1); return caml_copy_int64(st.st_size); }
CAMLprim value vp_pread(value fd, value off, value n)
{
	CAMLparam3(fd, off, n);
	size_t len = Long_val(n);
	value s = caml_alloc_string(len);
	size_t done = 0;
	while (done < len) {
		ssize_t r = pread(Long_val(fd), Bytes_val(s) + done, len - done, Int64_val(off) + done);
		if (r <= 0) break;
		done += r;
	}
	if (done != len) caml_failwith("vp_pread: short read");
	CAMLreturn(s);
}

/* ---- reader ------------------------------------------------------------------ */
CAMLprim value vp_reader_init(value path, value verify, value madv)
{
	struct mtbl_reader_options *ro = mtbl_reader_options_init();
	mtbl_reader_options_set_verify_checksums(ro, Bool_val(verify));
	mtbl_reader_options_set_madvise_random(ro, Bool_val(madv));
	struct mtbl_reader *r = mtbl_reader_init(String_val(path), ro);
	mtbl_reader_options_destroy(&ro);
	return mk_ptr(r);
}
CAMLprim value vp_reader_init_fd(value fd, value verify)
{
	struct mtbl_reader_options *ro = mtbl_reader_options_init();
	mtbl_reader_options_set_verify_checksums(ro, Bool_val(verify));
	struct mtbl_reader *r = mtbl_reader_init_fd(Long_val(fd), ro);
	mtbl_reader_options_destroy(&ro);
	return mk_ptr(r);
}
CAMLprim value vp_reader_destroy(value r) { struct mtbl_reader *p = PTR(r); mtbl_reader_destroy(&p); return Val_unit; }
CAMLprim value vp_reader_source(value r) { return mk_ptr(mtbl_reader_source(PTR(r))); }
/* metadata accessors: [version; index_block_offset; data_block_size; compression; count_entries;
   count_data_blocks; bytes_data_blocks; bytes_index_block; bytes_keys; bytes_values] */
CAMLprim value vp_reader_metadata(value r)
{
	CAMLparam1(r); CAMLlocal1(a);
	const struct mtbl_metadata *m = mtbl_reader_metadata(PTR(r));
	uint64_t v[10] = { mtbl_metadata_file_version(m), mtbl_metadata_index_block_offset(m),
		mtbl_metadata_data_block_size(m), mtbl_metadata_compression_algorithm(m),
		mtbl_metadata_count_entries(m), mtbl_metadata_count_data_blocks(m),
		mtbl_metadata_bytes_data_blocks(m), mtbl_metadata_bytes_index_block(m),
		mtbl_metadata_bytes_keys(m), mtbl_metadata_bytes_values(m) };
	a = caml_alloc(10, 0);
	for (int i = 0; i < 10; i++) Store_field(a, i, caml_copy_int64((int64_t) v[i]));
	CAMLreturn(a);
}

/* ---- sources and iterators ----------------------------------------------------- */
CAMLprim value vp_source_iter(value s) { return mk_ptr(mtbl_source_iter(PTR(s))); }
CAMLprim value vp_source_get(value s, value k)
{ return mk_ptr(mtbl_source_get(PTR(s), (const uint8_t *) String_val(k), caml_string_length(k))); }
CAMLprim value vp_source_get_prefix(value s, value k)
{ return mk_ptr(mtbl_source_get_prefix(PTR(s), (const uint8_t *) String_val(k), caml_string_length(k))); }
CAMLprim value vp_source_get_range(value s, value k0, value k1)
{ return mk_ptr(mtbl_source_get_range(PTR(s), (const uint8_t *) String_val(k0), caml_string_length(k0),
				       (const uint8_t *) String_val(k1), caml_string_length(k1))); }
CAMLprim value vp_source_write(value s, value w) { return Val_bool(mtbl_source_write(PTR(s), PTR(w)) == mtbl_res_success); }
CAMLprim value vp_iter_next(value it)
{
	CAMLparam1(it); CAMLlocal3(k, v, p);
	const uint8_t *key, *val; size_t lk, lv;
	if (mtbl_iter_next(PTR(it), &key, &lk, &val, &lv) != mtbl_res_success) CAMLreturn(Val_int(0));
	k = mk_string(key, lk); v = mk_string(val, lv);
	p = caml_alloc_tuple(2); Store_field(p, 0, k); Store_field(p, 1, v);
	CAMLreturn(some(p));
}
CAMLprim value vp_iter_seek(value it, value k)
{ return Val_bool(mtbl_iter_seek(PTR(it), (const uint8_t *) String_val(k), caml_string_length(k)) == mtbl_res_success); }
CAMLprim value vp_iter_destroy(value it) { struct mtbl_iter *p = PTR(it); mtbl_iter_destroy(&p); return Val_unit; }

/* ---- write(2) shim for writer.c (compiled with -Dwrite=vp_write) --------------- */
/* schedule entries: -1 = EINTR, -2 = hard error (EIO), 0 = return 0, n>0 = write at most n bytes,
 * VP_FULL = complete write.  When the schedule is exhausted every call completes in full. */
#define VP_FULL 0x7fffffff
static int *vp_sched = NULL; static size_t vp_sched_len = 0, vp_sched_pos = 0; static long vp_write_calls = 0;
/* errno as state: vp_entry_errno (if not 0) is what errno holds when the writer makes its first write(2) call - left
 * behind by some earlier call; vp_success_errno (if not 0) is what a write that SUCCEEDS (in full, short, or with 0)
 * leaves in errno - POSIX gives errno a meaning only after a failing call */
static int vp_entry_errno = 0, vp_success_errno = 0;
#undef write
static ssize_t vp_write_inner(int fd, const void *buf, size_t n);
ssize_t vp_write(int fd, const void *buf, size_t n)
{
	if (vp_write_calls == 0 && vp_entry_errno) errno = vp_entry_errno;
	ssize_t r = vp_write_inner(fd, buf, n);
	if (r >= 0 && vp_success_errno) errno = vp_success_errno;
	return r;
}
CAMLprim value vp_set_write_errno(value entry, value success)
{
	vp_entry_errno = Long_val(entry) == 1 ? EINTR : Long_val(entry) == 2 ? EIO : 0;
	vp_success_errno = Long_val(success) == 1 ? EINTR : Long_val(success) == 2 ? EIO : 0;
	return Val_unit;
}
static ssize_t vp_write_inner(int fd, const void *buf, size_t n)
{
	vp_write_calls++;
	if (vp_sched_pos < vp_sched_len) {
		int o = vp_sched[vp_sched_pos++];
		if (o == -1) { errno = EINTR; return -1; }
		if (o == -2) { errno = EIO; return -1; }
		if (o == 0) return 0;
		if (o != VP_FULL && (size_t) o < n) n = o;
	}
	size_t done = 0;
	while (done < n) { ssize_t r = write(fd, (const char *) buf + done, n - done); if (r < 0 && errno == EINTR) continue; if (r <= 0) return -1; done += r; }
	return (ssize_t) done;
}
CAMLprim value vp_set_write_schedule(value arr)
{
	free(vp_sched); vp_sched_len = Wosize_val(arr); vp_sched_pos = 0; vp_write_calls = 0;
	vp_sched = malloc(sizeof(int) * (vp_sched_len + 1));
	for (size_t i = 0; i < vp_sched_len; i++) vp_sched[i] = Long_val(Field(arr, i));
	return Val_unit;
}
CAMLprim value vp_write_calls_made(value unit) { return Val_long(vp_write_calls); }

/* next() returning the library's own pointers (to observe buffer stability) */
CAMLprim value vp_iter_next_raw(value it)
{
	CAMLparam1(it); CAMLlocal1(p);
	const uint8_t *key, *val; size_t lk, lv;
	if (mtbl_iter_next(PTR(it), &key, &lk, &val, &lv) != mtbl_res_success) CAMLreturn(Val_int(0));
	p = caml_alloc_tuple(4);
	Store_field(p, 0, mk_ptr(key)); Store_field(p, 1, Val_long(lk));
	Store_field(p, 2, mk_ptr(val)); Store_field(p, 3, Val_long(lv));
	CAMLreturn(some(p));
}
CAMLprim value vp_peek(value ptr, value n) { return mk_string((const uint8_t *) PTR(ptr), Long_val(n)); }

/* ---- mmap shim for reader.c (compiled with -Dmmap=vp_mmap -Dmunmap=vp_munmap) ---- */
/* mode 0: plain mmap.  mode 1: a private copy of the file whose LAST byte is flush against a
 * PROT_NONE page.  mode 2: a copy whose FIRST byte directly follows a PROT_NONE page (and the
 * rest of its last page is followed by another guard).  Any access outside the file's bytes by
 * more than the slack inside the boundary page faults. */
#include <sys/mman.h>
#undef mmap
#undef munmap
static int vp_mmap_mode = 0;
static struct { void *user; void *base; size_t total; } vp_maps[64];
static void *vp_last_map_base = NULL; static size_t vp_last_map_len = 0;   /* the most recent mapping reader.c made (mode 0) */
void *vp_mmap(void *addr, size_t length, int prot, int flags, int fd, off_t offset)
{
	if (vp_mmap_mode == 0 || length == 0) { void *q = mmap(addr, length, prot, flags, fd, offset); if (q != MAP_FAILED) { vp_last_map_base = q; vp_last_map_len = length; } return q; }
	size_t pg = 4096, data_pages = (length + pg - 1) / pg;
	size_t total = (data_pages + 2) * pg;
	uint8_t *base = mmap(NULL, total, PROT_READ | PROT_WRITE, MAP_PRIVATE | MAP_ANONYMOUS, -1, 0);
	if (base == MAP_FAILED) return MAP_FAILED;
	uint8_t *user = (vp_mmap_mode == 1) ? base + pg + data_pages * pg - length : base + pg;
	size_t done = 0;
	while (done < length) { ssize_t r = pread(fd, user + done, length - done, offset + done); if (r <= 0) break; done += r; }
	mprotect(base, pg, PROT_NONE);
	mprotect(base + pg + data_pages * pg, pg, PROT_NONE);
	mprotect(base + pg, data_pages * pg, PROT_READ);
	for (int i = 0; i < 64; i++) if (vp_maps[i].user == NULL) { vp_maps[i].user = user; vp_maps[i].base = base; vp_maps[i].total = total; break; }
	return user;
}
int vp_munmap(void *addr, size_t length)
{
	for (int i = 0; i < 64; i++) if (vp_maps[i].user == addr && addr != NULL) { vp_maps[i].user = NULL; return munmap(vp_maps[i].base, vp_maps[i].total); }
	return munmap(addr, length);
}
CAMLprim value vp_set_mmap_mode(value m) { vp_mmap_mode = Long_val(m); return Val_unit; }
/* (base, length) of the most recent file mapping made through the shim */
CAMLprim value vp_last_mmap(value unit)
{
	CAMLparam1(unit); CAMLlocal1(r);
	r = caml_alloc_tuple(2); Store_field(r, 0, mk_ptr(vp_last_map_base)); Store_field(r, 1, Val_long(vp_last_map_len));
	CAMLreturn(r);
}

/* ---- CRC-32C: both implementations regardless of the host CPU ------------------- */
uint32_t my_crc32c_slicing(const uint8_t *, size_t);
#if __GNUC__ >= 3 && defined(__x86_64__)
bool my_crc32c_sse42_supported(void);
uint32_t my_crc32c_sse42(const uint8_t *, size_t);
#endif
/* which: 0 = mtbl_crc32c (dispatch), 1 = slicing, 2 = sse42.  The buffer is copied to an
 * address with (addr mod 8) == align. */
CAMLprim value vp_crc_impl(value which, value s, value align)
{
	CAMLparam3(which, s, align);
	size_t n = caml_string_length(s);
	uint8_t *raw = aligned_alloc(64, n + 128);
	memset(raw, 0xEE, n + 128);
	uint8_t *p = raw + 64 + Long_val(align);
	memcpy(p, String_val(s), n);
	uint32_t r = 0;
	switch (Long_val(which)) {
	case 0: r = mtbl_crc32c(p, n); break;
	case 1: r = my_crc32c_slicing(p, n); break;
#if __GNUC__ >= 3 && defined(__x86_64__)
	case 2: r = my_crc32c_sse42(p, n); break;
#endif
	}
	free(raw);
	CAMLreturn(caml_copy_int64((int64_t)(uint64_t) r));
}
/* mtbl_crc32c from several threads at once, each on its own private buffer (lengths not a multiple of 8, so the tail
 * code runs): returns the number of calls whose result was not the CRC-32C of the caller's buffer (bitwise reference) */
static uint32_t vp_crc_bitwise(const uint8_t *p, size_t n)
{
	uint32_t c = 0xffffffffu;
	for (size_t i = 0; i < n; i++) { c ^= p[i]; for (int k = 0; k < 8; k++) c = (c >> 1) ^ (0x82f63b78u & (0u - (c & 1u))); }
	return ~c;
}
struct vp_crc_thr { uint8_t buf[64]; size_t len; long iters; long bad; };
static void *vp_crc_thread(void *a)
{
	struct vp_crc_thr *t = a;
	uint32_t want = vp_crc_bitwise(t->buf, t->len);
	for (long i = 0; i < t->iters; i++) if (mtbl_crc32c(t->buf, t->len) != want) t->bad++;
	return NULL;
}
CAMLprim value vp_crc_threads(value nthr, value iters)
{
	int n = Long_val(nthr); if (n > 16) n = 16;
	struct vp_crc_thr t[16]; pthread_t th[16]; long bad = 0;
	for (int i = 0; i < n; i++) {
		t[i].len = 7 + 8 * (i % 4) - (i / 4); t[i].iters = Long_val(iters); t[i].bad = 0;
		for (size_t k = 0; k < sizeof(t[i].buf); k++) t[i].buf[k] = (uint8_t) (k * 37 + i * 101 + 5);
	}
	for (int i = 0; i < n; i++) pthread_create(&th[i], NULL, vp_crc_thread, &t[i]);
	for (int i = 0; i < n; i++) { pthread_join(th[i], NULL); bad += t[i].bad; }
	return Val_long(bad);
}
/* the empty buffer given as (NULL, 0) */
CAMLprim value vp_crc_null(value which)
{
	uint32_t r = 0;
	switch (Long_val(which)) {
	case 0: r = mtbl_crc32c(NULL, 0); break;
	case 1: r = my_crc32c_slicing(NULL, 0); break;
#if __GNUC__ >= 3 && defined(__x86_64__)
	case 2: r = my_crc32c_sse42(NULL, 0); break;
#endif
	}
	return caml_copy_int64((int64_t)(uint64_t) r);
}
/* mtbl_crc32c twice on ONE buffer whose content is replaced in place between the calls (same address, same length) */
CAMLprim value vp_crc_inplace(value s1, value s2)
{
	CAMLparam2(s1, s2); CAMLlocal1(r);
	size_t n = caml_string_length(s1);
	uint8_t *raw = malloc(n + 16);
	memcpy(raw + 3, String_val(s1), n);
	uint32_t a = mtbl_crc32c(raw + 3, n);
	memcpy(raw + 3, String_val(s2), n);
	uint32_t b = mtbl_crc32c(raw + 3, n);
	free(raw);
	r = caml_alloc_tuple(2);
	Store_field(r, 0, caml_copy_int64((int64_t)(uint64_t) a)); Store_field(r, 1, caml_copy_int64((int64_t)(uint64_t) b));
	CAMLreturn(r);
}
CAMLprim value vp_sse42_supported(value unit)
{
#if __GNUC__ >= 3 && defined(__x86_64__)
	return Val_bool(my_crc32c_sse42_supported());
#else
	return Val_false;
#endif
}

/* ---- compression names --------------------------------------------------------- */
CAMLprim value vp_comp_to_str(value t)
{
	const char *s = mtbl_compression_type_to_str(Long_val(t));
	if (s == NULL) return Val_int(0);
	return some(caml_copy_string(s));
}
CAMLprim value vp_comp_from_str(value s)
{
	mtbl_compression_type t = 999;
	if (mtbl_compression_type_from_str(String_val(s), &t) != mtbl_res_success) return Val_int(0);
	return some(Val_long(t));
}

/* ---- merger, test merge / dupsort callbacks, user-defined sources ------------------ */
struct vp_merge_clos { int kind; long calls; long fail_at; };
/* kind 1: merged = v0 ++ "|" ++ v1 (order-revealing); kind 2: v0 ++ v1.  fail_at = n: the n-th call (1-based)
 * fails by leaving *merged_val untouched. */
static void vp_merge_func(void *clos, const uint8_t *key, size_t len_key,
			  const uint8_t *val0, size_t len_val0, const uint8_t *val1, size_t len_val1,
			  uint8_t **merged_val, size_t *len_merged_val)
{
	struct vp_merge_clos *c = clos;
	(void) key; (void) len_key;
	c->calls++;
	if (c->fail_at > 0 && c->calls == c->fail_at) return;
	if (c->kind == 3 || c->kind == 4) {	/* kind 3 / 4: the larger / smaller of the two values by (length, bytes): the result is one of the operands */
		int cmp = (len_val0 != len_val1) ? (len_val0 < len_val1 ? -1 : 1) : bytes_compare(val0, len_val0, val1, len_val1);
		int take0 = (c->kind == 3) ? (cmp >= 0) : (cmp <= 0);
		const uint8_t *v = take0 ? val0 : val1; size_t l = take0 ? len_val0 : len_val1;
		*len_merged_val = l; *merged_val = malloc(l + 1); memcpy(*merged_val, v, l);
		return;
	}
	if (c->kind == 2) {	/* kind 2: plain concatenation - the merged value of two empty values is empty (a non-NULL buffer of length 0) */
		*len_merged_val = len_val0 + len_val1;
		*merged_val = malloc(*len_merged_val + 1);
		memcpy(*merged_val, val0, len_val0); memcpy(*merged_val + len_val0, val1, len_val1);
		return;
	}
	*len_merged_val = len_val0 + 1 + len_val1;
	*merged_val = malloc(*len_merged_val + 1);
	memcpy(*merged_val, val0, len_val0);
	(*merged_val)[len_val0] = '|';
	memcpy(*merged_val + len_val0 + 1, val1, len_val1);
}
/* dupsort: kind 1 ascending bytewise on values, kind 2 descending */
static int vp_dupsort_func(void *clos, const uint8_t *key, size_t len_key,
			   const uint8_t *val0, size_t len_val0, const uint8_t *val1, size_t len_val1)
{
	(void) key; (void) len_key;
	int r = bytes_compare(val0, len_val0, val1, len_val1);
	return ((intptr_t) clos == 2) ? -r : r;
}
CAMLprim value vp_merge_clos_new(value kind, value fail_at)
{
	struct vp_merge_clos *c = calloc(1, sizeof(*c));
	c->kind = Long_val(kind); c->fail_at = Long_val(fail_at);
	return mk_ptr(c);
}
CAMLprim value vp_merge_clos_calls(value c) { return Val_long(((struct vp_merge_clos *) PTR(c))->calls); }
CAMLprim value vp_merge_clos_free(value c) { free(PTR(c)); return Val_unit; }
/* merger_init(merge clos or 0, dupsort kind 0/1/2) */
CAMLprim value vp_merger_init(value mclos, value dupsort)
{
	struct mtbl_merger_options *mo = mtbl_merger_options_init();
	if (PTR(mclos) != NULL) mtbl_merger_options_set_merge_func(mo, vp_merge_func, PTR(mclos));
	if (Long_val(dupsort) != 0) mtbl_merger_options_set_dupsort_func(mo, vp_dupsort_func, (void *)(intptr_t) Long_val(dupsort));
	struct mtbl_merger *m = mtbl_merger_init(mo);
	mtbl_merger_options_destroy(&mo);
	return mk_ptr(m);
}
CAMLprim value vp_merger_add_source(value m, value s) { mtbl_merger_add_source(PTR(m), PTR(s)); return Val_unit; }
CAMLprim value vp_merger_source(value m) { return mk_ptr(mtbl_merger_source(PTR(m))); }
CAMLprim value vp_merger_destroy(value m) { struct mtbl_merger *p = PTR(m); mtbl_merger_destroy(&p); return Val_unit; }

/* a user-defined source over an in-memory sorted table that hands out FRESH buffers on every
 * call and poisons + frees the ones handed out by the previous call on that iterator */
struct vp_usrc { size_t n; uint8_t **k; size_t *lk; uint8_t **v; size_t *lv; struct mtbl_source *src; };
struct vp_uiter { struct vp_usrc *u; size_t pos; int kind; uint8_t *b0; size_t lb0; uint8_t *b1; size_t lb1;
		  uint8_t *pk; size_t plk; uint8_t *pv; size_t plv; int valid; };
static void vp_uiter_drop_prev(struct vp_uiter *it)
{
	if (it->pk) { memset(it->pk, 0xDD, it->plk); free(it->pk); it->pk = NULL; }
	if (it->pv) { memset(it->pv, 0xDD, it->plv); free(it->pv); it->pv = NULL; }
}
static size_t vp_usrc_first_ge(struct vp_usrc *u, const uint8_t *key, size_t len)
{
	size_t i = 0;
	while (i < u->n && bytes_compare(u->k[i], u->lk[i], key, len) < 0) i++;
	return i;
}
static mtbl_res vp_uiter_seek(void *v, const uint8_t *key, size_t len)
{
	struct vp_uiter *it = v;
	vp_uiter_drop_prev(it);
	it->pos = vp_usrc_first_ge(it->u, key, len); it->valid = 1;
	return mtbl_res_success;
}
static mtbl_res vp_uiter_next(void *v, const uint8_t **key, size_t *len_key, const uint8_t **val, size_t *len_val)
{
	struct vp_uiter *it = v; struct vp_usrc *u = it->u;
	vp_uiter_drop_prev(it);
	if (!it->valid) return mtbl_res_failure;
	if (it->pos >= u->n) { it->valid = 0; return mtbl_res_failure; }
	size_t i = it->pos;
	int ok = 1;
	if (it->kind == 1) ok = bytes_compare(u->k[i], u->lk[i], it->b0, it->lb0) == 0;
	else if (it->kind == 2) ok = (it->lb0 <= u->lk[i] && memcmp(it->b0, u->k[i], it->lb0) == 0);
	else if (it->kind == 3) ok = bytes_compare(u->k[i], u->lk[i], it->b1, it->lb1) <= 0;
	if (!ok) { it->valid = 0; return mtbl_res_failure; }
	it->pos++;
	it->plk = u->lk[i]; it->pk = malloc(it->plk + 1); memcpy(it->pk, u->k[i], it->plk);
	it->plv = u->lv[i]; it->pv = malloc(it->plv + 1); memcpy(it->pv, u->v[i], it->plv);
	*key = it->pk; *len_key = it->plk; *val = it->pv; *len_val = it->plv;
	return mtbl_res_success;
}
static void vp_uiter_free(void *v) { struct vp_uiter *it = v; vp_uiter_drop_prev(it); free(it->b0); free(it->b1); free(it); }
static struct mtbl_iter *vp_uiter_make(struct vp_usrc *u, int kind, const uint8_t *b0, size_t lb0, const uint8_t *b1, size_t lb1, size_t pos)
{
	struct vp_uiter *it = calloc(1, sizeof(*it));
	it->u = u; it->kind = kind; it->pos = pos; it->valid = 1;
	if (b0 || kind) { it->b0 = malloc(lb0 + 1); memcpy(it->b0, b0, lb0); it->lb0 = lb0; }
	if (b1 || kind == 3) { it->b1 = malloc(lb1 + 1); memcpy(it->b1, b1, lb1); it->lb1 = lb1; }
	return mtbl_iter_init(vp_uiter_seek, vp_uiter_next, vp_uiter_free, it);
}
static struct mtbl_iter *vp_usrc_iter(void *c) { return vp_uiter_make(c, 0, NULL, 0, NULL, 0, 0); }
static struct mtbl_iter *vp_usrc_get(void *c, const uint8_t *k, size_t l) { return vp_uiter_make(c, 1, k, l, NULL, 0, vp_usrc_first_ge(c, k, l)); }
static struct mtbl_iter *vp_usrc_get_prefix(void *c, const uint8_t *k, size_t l) { return vp_uiter_make(c, 2, k, l, NULL, 0, vp_usrc_first_ge(c, k, l)); }
static struct mtbl_iter *vp_usrc_get_range(void *c, const uint8_t *k0, size_t l0, const uint8_t *k1, size_t l1)
{ return vp_uiter_make(c, 3, k0, l0, k1, l1, vp_usrc_first_ge(c, k0, l0)); }
/* entries: array of (key, val) strings, already sorted by key */
CAMLprim value vp_usrc_new(value arr)
{
	CAMLparam1(arr);
	struct vp_usrc *u = calloc(1, sizeof(*u));
	u->n = Wosize_val(arr);
	u->k = calloc(u->n + 1, sizeof(void *)); u->v = calloc(u->n + 1, sizeof(void *));
	u->lk = calloc(u->n + 1, sizeof(size_t)); u->lv = calloc(u->n + 1, sizeof(size_t));
	for (size_t i = 0; i < u->n; i++) {
		value p = Field(arr, i);
		u->lk[i] = caml_string_length(Field(p, 0)); u->k[i] = malloc(u->lk[i] + 1); memcpy(u->k[i], String_val(Field(p, 0)), u->lk[i]);
		u->lv[i] = caml_string_length(Field(p, 1)); u->v[i] = malloc(u->lv[i] + 1); memcpy(u->v[i], String_val(Field(p, 1)), u->lv[i]);
	}
	u->src = mtbl_source_init(vp_usrc_iter, vp_usrc_get, vp_usrc_get_prefix, vp_usrc_get_range, NULL, u);
	CAMLreturn(mk_ptr(u));
}
CAMLprim value vp_usrc_source(value u) { return mk_ptr(((struct vp_usrc *) PTR(u))->src); }
CAMLprim value vp_usrc_free(value uv)
{
	struct vp_usrc *u = PTR(uv);
	for (size_t i = 0; i < u->n; i++) { free(u->k[i]); free(u->v[i]); }
	free(u->k); free(u->v); free(u->lk); free(u->lv);
	mtbl_source_destroy(&u->src); free(u);
	return Val_unit;
}

/* ---- sorter + mkstemp shim (sorter.c compiled with -Dmkstemp=vp_mkstemp) ---------- */
#undef mkstemp
#include <pthread.h>
static pthread_mutex_t vp_mkstemp_m = PTHREAD_MUTEX_INITIALIZER;
static char vp_templates[256][4400]; static long vp_mkstemp_calls = 0;   /* room for PATH_MAX */
int vp_mkstemp(char *template)
{
	pthread_mutex_lock(&vp_mkstemp_m);
	if (vp_mkstemp_calls < 256) { strncpy(vp_templates[vp_mkstemp_calls], template, 4399); }
	vp_mkstemp_calls++;
	pthread_mutex_unlock(&vp_mkstemp_m);
	return mkstemp(template);
}
CAMLprim value vp_mkstemp_reset(value unit) { vp_mkstemp_calls = 0; return Val_unit; }
CAMLprim value vp_mkstemp_count(value unit) { return Val_long(vp_mkstemp_calls); }
CAMLprim value vp_mkstemp_template(value i) { return caml_copy_string(vp_templates[Long_val(i) % 256]); }

/* (max_memory, tmp dir, merge clos, pool) */
CAMLprim value vp_sorter_init(value maxmem, value tmpdir, value mclos, value pool)
{
	struct mtbl_sorter_options *so = mtbl_sorter_options_init();
	mtbl_sorter_options_set_max_memory(so, Long_val(maxmem));
	mtbl_sorter_options_set_temp_dir(so, String_val(tmpdir));
	if (PTR(mclos) != NULL) mtbl_sorter_options_set_merge_func(so, vp_merge_func, PTR(mclos));
	if (PTR(pool) != NULL) mtbl_sorter_options_set_threadpool(so, PTR(pool));
	struct mtbl_sorter *s = mtbl_sorter_init(so);
	mtbl_sorter_options_destroy(&so);
	return mk_ptr(s);
}
CAMLprim value vp_sorter_add(value s, value k, value v)
{
	return Val_bool(mtbl_sorter_add(PTR(s), (const uint8_t *) String_val(k), caml_string_length(k),
					(const uint8_t *) String_val(v), caml_string_length(v)) == mtbl_res_success);
}
CAMLprim value vp_sorter_iter(value s) { return mk_ptr(mtbl_sorter_iter(PTR(s))); }
CAMLprim value vp_sorter_write(value s, value w) { return Val_bool(mtbl_sorter_write(PTR(s), PTR(w)) == mtbl_res_success); }
CAMLprim value vp_sorter_destroy(value s) { struct mtbl_sorter *p = PTR(s); mtbl_sorter_destroy(&p); return Val_unit; }

/* ---- fileset: controlled clock, filters ------------------------------------------- */
#undef clock_gettime
#include <time.h>
static long vp_clock_sec = 1000, vp_clock_nsec = 0;
/* every reading is strictly later than the previous one: +1 ns per call */
int vp_clock_gettime(clockid_t clk, struct timespec *ts)
{
	(void) clk;
	vp_clock_nsec += 1; if (vp_clock_nsec >= 1000000000) { vp_clock_sec += 1; vp_clock_nsec -= 1000000000; }
	ts->tv_sec = vp_clock_sec; ts->tv_nsec = vp_clock_nsec; return 0;
}
CAMLprim value vp_set_clock(value sec, value nsec) { vp_clock_sec = Long_val(sec); vp_clock_nsec = Long_val(nsec); return Val_unit; }
CAMLprim value vp_advance_clock(value sec, value nsec)
{
	vp_clock_nsec += Long_val(nsec); vp_clock_sec += Long_val(sec) + vp_clock_nsec / 1000000000; vp_clock_nsec %= 1000000000;
	return Val_unit;
}
/* filename filter: the decimal number in the basename, parity == clos - 1 */
static bool vp_fname_filter(const char *fname, void *clos)
{
	const char *b = strrchr(fname, '/'); b = b ? b + 1 : fname;
	long n = 0; while (*b && (*b < '0' || *b > '9')) b++;
	while (*b >= '0' && *b <= '9') { n = n * 10 + (*b - '0'); b++; }
	return (n % 2) == ((intptr_t) clos - 1);
}
/* reader filter: table id = count_entries - 8 (ocaml/fs.ml: table_keys), parity == clos - 1 */
static bool vp_reader_filter(struct mtbl_reader *r, void *clos)
{
	uint64_t n = mtbl_metadata_count_entries(mtbl_reader_metadata(r));
	return ((n - 8) % 2) == (uint64_t)((intptr_t) clos - 1);
}
static struct mtbl_fileset_options *vp_fs_opts(value interval, value mclos, value nf, value rf)
{
	struct mtbl_fileset_options *fo = mtbl_fileset_options_init();
	mtbl_fileset_options_set_reload_interval(fo, (uint32_t) Long_val(interval));
	if (PTR(mclos) != NULL) mtbl_fileset_options_set_merge_func(fo, vp_merge_func, PTR(mclos));
	if (Long_val(nf) > 0) mtbl_fileset_options_set_filename_filter_func(fo, vp_fname_filter, (void *)(intptr_t) Long_val(nf));
	if (Long_val(rf) > 0) mtbl_fileset_options_set_reader_filter_func(fo, vp_reader_filter, (void *)(intptr_t) Long_val(rf));
	return fo;
}
CAMLprim value vp_fileset_init(value path, value interval, value mclos, value nf, value rf)
{
	struct mtbl_fileset_options *fo = vp_fs_opts(interval, mclos, nf, rf);
	struct mtbl_fileset *f = mtbl_fileset_init(String_val(path), fo);
	mtbl_fileset_options_destroy(&fo);
	return mk_ptr(f);
}
/* a fileset without merge function, with a dupsort function (kind 1 ascending / 2 descending on values) */
CAMLprim value vp_fileset_init_dupsort(value path, value interval, value kind)
{
	struct mtbl_fileset_options *fo = mtbl_fileset_options_init();
	mtbl_fileset_options_set_reload_interval(fo, (uint32_t) Long_val(interval));
	mtbl_fileset_options_set_dupsort_func(fo, vp_dupsort_func, (void *)(intptr_t) Long_val(kind));
	struct mtbl_fileset *f = mtbl_fileset_init(String_val(path), fo);
	mtbl_fileset_options_destroy(&fo);
	return mk_ptr(f);
}
CAMLprim value vp_fileset_dup(value orig, value interval, value mclos, value nf, value rf)
{
	struct mtbl_fileset_options *fo = vp_fs_opts(interval, mclos, nf, rf);
	struct mtbl_fileset *f = mtbl_fileset_dup(PTR(orig), fo);
	mtbl_fileset_options_destroy(&fo);
	return mk_ptr(f);
}
CAMLprim value vp_fileset_destroy(value f) { struct mtbl_fileset *p = PTR(f); mtbl_fileset_destroy(&p); return Val_unit; }
CAMLprim value vp_fileset_source(value f) { return mk_ptr(mtbl_fileset_source(PTR(f))); }
CAMLprim value vp_fileset_reload(value f) { mtbl_fileset_reload(PTR(f)); return Val_unit; }
CAMLprim value vp_fileset_reload_now(value f) { mtbl_fileset_reload_now(PTR(f)); return Val_unit; }

/* mtbl_fileset_partition by the parity of the number in the file name: (merger 1, merger 2) */
CAMLprim value vp_fileset_partition(value f, value parity)
{
	CAMLparam2(f, parity);
	CAMLlocal1(r);
	struct mtbl_merger *m1 = NULL, *m2 = NULL;
	mtbl_fileset_partition(PTR(f), vp_fname_filter, (void *)(intptr_t) Long_val(parity), &m1, &m2);
	r = caml_alloc_tuple(2);
	Store_field(r, 0, mk_ptr(m1)); Store_field(r, 1, mk_ptr(m2));
	CAMLreturn(r);
}

/* ---- process-level resource observation (C18) -------------------------------------- */
#include <malloc.h>
CAMLprim value vp_heap_in_use(value unit)
{
	struct mallinfo2 mi = mallinfo2();
	return caml_copy_int64((int64_t) (mi.uordblks + mi.hblkhd));
}

/* ---- C15: recorder at the boundary between compression.c and the four libraries ------------
   compression.c is compiled with the library entry points renamed to the vp_ functions below
   (harness/Makefile, shim_compression.o).  Each forwards to the real function; while recording
   is on (single-threaded round trips of engine c15 only) it notes what the wrapper passed:
   function, level, source length, destination capacity, and the library's return value. */
#include <lz4.h>
#include <lz4hc.h>
#include <snappy-c.h>
#include <zlib.h>
#include <zstd.h>
enum { VP_LZ4C = 1, VP_LZ4HC, VP_LZ4D, VP_ZSTDC, VP_ZSTDD, VP_SNAPC, VP_SNAPD, VP_ZINIT, VP_ZBOUND, VP_DEFLATE, VP_INFLATE };
struct vp_libcall { int fn; long level, srclen, cap, ret; };
static struct vp_libcall vp_calls[256];
static int vp_ncalls;
static volatile int vp_rec_on;
static void vp_note(int fn, long level, long srclen, long cap, long ret)
{
	if (!vp_rec_on || vp_ncalls >= 256) return;
	vp_calls[vp_ncalls].fn = fn; vp_calls[vp_ncalls].level = level; vp_calls[vp_ncalls].srclen = srclen;
	vp_calls[vp_ncalls].cap = cap; vp_calls[vp_ncalls].ret = ret; vp_ncalls++;
}
int vp_LZ4_compress_default(const char *src, char *dst, int srcSize, int dstCapacity)
{ int r = LZ4_compress_default(src, dst, srcSize, dstCapacity); vp_note(VP_LZ4C, 0, srcSize, dstCapacity, r); return r; }
int vp_LZ4_compress_HC(const char *src, char *dst, int srcSize, int dstCapacity, int level)
{ int r = LZ4_compress_HC(src, dst, srcSize, dstCapacity, level); vp_note(VP_LZ4HC, level, srcSize, dstCapacity, r); return r; }
int vp_LZ4_decompress_safe(const char *src, char *dst, int compressedSize, int dstCapacity)
{ int r = LZ4_decompress_safe(src, dst, compressedSize, dstCapacity); vp_note(VP_LZ4D, 0, compressedSize, dstCapacity, r); return r; }
size_t vp_ZSTD_compress(void *dst, size_t dstCapacity, const void *src, size_t srcSize, int level)
{ size_t r = ZSTD_compress(dst, dstCapacity, src, srcSize, level); vp_note(VP_ZSTDC, level, srcSize, dstCapacity, ZSTD_isError(r) ? -1 : (long) r); return r; }
size_t vp_ZSTD_decompress(void *dst, size_t dstCapacity, const void *src, size_t compressedSize)
{ size_t r = ZSTD_decompress(dst, dstCapacity, src, compressedSize); vp_note(VP_ZSTDD, 0, compressedSize, dstCapacity, ZSTD_isError(r) ? -1 : (long) r); return r; }
snappy_status vp_snappy_compress(const char *input, size_t input_length, char *compressed, size_t *compressed_length)
{ size_t cap = *compressed_length; snappy_status r = snappy_compress(input, input_length, compressed, compressed_length);
  vp_note(VP_SNAPC, 0, input_length, cap, r == SNAPPY_OK ? (long) *compressed_length : -1); return r; }
snappy_status vp_snappy_uncompress(const char *compressed, size_t compressed_length, char *uncompressed, size_t *uncompressed_length)
{ size_t cap = *uncompressed_length; snappy_status r = snappy_uncompress(compressed, compressed_length, uncompressed, uncompressed_length);
  vp_note(VP_SNAPD, 0, compressed_length, cap, r == SNAPPY_OK ? (long) *uncompressed_length : -1); return r; }
int vp_deflateInit_(z_streamp strm, int level, const char *version, int stream_size)
{ int r = deflateInit_(strm, level, version, stream_size); vp_note(VP_ZINIT, level, 0, 0, r); return r; }
uLong vp_deflateBound(z_streamp strm, uLong sourceLen)
{ uLong r = deflateBound(strm, sourceLen); vp_note(VP_ZBOUND, 0, sourceLen, 0, r); return r; }
int vp_deflate(z_streamp strm, int flush)
{ long in = strm->avail_in, out = strm->avail_out; int r = deflate(strm, flush); vp_note(VP_DEFLATE, flush, in, out, r); return r; }
int vp_inflate(z_streamp strm, int flush)
{ long in = strm->avail_in, out = strm->avail_out; int r = inflate(strm, flush); vp_note(VP_INFLATE, flush, in, out, r); return r; }

CAMLprim value vp_rec_start(value unit) { vp_ncalls = 0; vp_rec_on = 1; return Val_unit; }
/* stops recording; the calls as text "fn,level,srclen,cap,ret;..." */
CAMLprim value vp_rec_stop(value unit)
{
	CAMLparam1(unit);
	char buf[256 * 96]; size_t o = 0;
	vp_rec_on = 0;
	for (int i = 0; i < vp_ncalls; i++)
		o += snprintf(buf + o, sizeof(buf) - o, "%d,%ld,%ld,%ld,%ld;", vp_calls[i].fn, vp_calls[i].level, vp_calls[i].srclen, vp_calls[i].cap, vp_calls[i].ret);
	buf[o] = 0;
	CAMLreturn(caml_copy_string(buf));
}
/* the libraries' own bound functions and level ranges: 0 LZ4_compressBound, 1 ZSTD_compressBound,
   2 snappy_max_compressed_length, 3 ZSTD_minCLevel, 4 ZSTD_maxCLevel (n ignored) */
CAMLprim value vp_lib_bound(value which, value n)
{
	int64_t x = Int64_val(n), r = -1;
	switch (Long_val(which)) {
	case 0: r = (x > INT_MAX) ? -1 : LZ4_compressBound((int) x); break;
	case 1: r = (int64_t) ZSTD_compressBound((size_t) x); break;
	case 2: r = (int64_t) snappy_max_compressed_length((size_t) x); break;
	case 3: r = ZSTD_minCLevel(); break;
	case 4: r = ZSTD_maxCLevel(); break;
	}
	return caml_copy_int64(r);
}
/* a compression / decompression call on a buffer that is only named, never dereferenced by a correct
   wrapper: sizes above INT_MAX must be refused at once.  The buffer is a sparse zero mapping. */
CAMLprim value vp_huge_call(value alg, value decompress, value size)
{
	size_t n = (size_t) Int64_val(size);
	void *p = mmap(NULL, n, PROT_READ, MAP_PRIVATE | MAP_ANONYMOUS | MAP_NORESERVE, -1, 0);
	uint8_t *out = NULL; size_t outlen = 0; mtbl_res r;
	if (p == MAP_FAILED) return Val_long(-1);
	if (Bool_val(decompress)) r = mtbl_decompress(Long_val(alg), p, n, &out, &outlen);
	else r = mtbl_compress(Long_val(alg), p, n, &out, &outlen);
	if (r == mtbl_res_success) free(out);
	munmap(p, n);
	return Val_long(r == mtbl_res_success ? 1 : 0);
}

/* coverage builds only (tools/coverage.sh): forked children leave through _exit, which skips gcov's atexit hook */
#ifdef VP_COVERAGE
extern void __gcov_dump(void);
#endif
CAMLprim value vp_cov_dump(value unit)
{
#ifdef VP_COVERAGE
	__gcov_dump();
#endif
	return Val_unit;
}

/* ---- my_fileset_reload's reading of a setfile text, seen directly: the paths it loads (those that exist), in its order ---- */
#include "libmy/my_fileset.h"
static void *vp_mfs_load(struct my_fileset *fs, const char *fname) { (void) fs; return strdup(fname); }
static void vp_mfs_unload(struct my_fileset *fs, const char *fname, void *ptr) { (void) fs; (void) fname; free(ptr); }
CAMLprim value vp_my_fileset_names(value path)
{
	CAMLparam1(path); CAMLlocal3(l, c, str);
	struct my_fileset *fs = my_fileset_init(String_val(path), vp_mfs_load, vp_mfs_unload, NULL);
	my_fileset_reload(fs);
	size_t n = 0; const char *fn; void *p;
	while (my_fileset_get(fs, n, &fn, &p)) n++;
	l = Val_emptylist;
	while (n > 0) {
		n--;
		my_fileset_get(fs, n, &fn, &p);
		str = caml_copy_string(fn);
		c = caml_alloc(2, 0); Store_field(c, 0, str); Store_field(c, 1, l); l = c;
	}
	my_fileset_destroy(&fs);
	CAMLreturn(l);
}
