(* Engine "fs": the fileset (C07).  A temporary directory holds a setfile and table
   files whose content reveals which tables a view contains.  fileset.c runs against a
   driver-controlled monotonic clock; setfile versions get strictly increasing mtimes.
   Histories of {rewrite setfile, create/delete files, advance time, reload, reload_now,
   open/close iterators (drained at close: snapshot pinning), dup with other filters,
   destroy} on implementation and model/Fileset.v. *)
open Common
open Mtbl_model
type string = Stdlib.String.t

external c_set_clock : int -> int -> unit = "vp_set_clock"
external c_advance_clock : int -> int -> unit = "vp_advance_clock"
external c_fileset_init : string -> int -> nativeint -> int -> int -> nativeint = "vp_fileset_init"
external c_fileset_dup : nativeint -> int -> nativeint -> int -> int -> nativeint = "vp_fileset_dup"
external c_fileset_destroy : nativeint -> unit = "vp_fileset_destroy"
external c_fileset_source : nativeint -> nativeint = "vp_fileset_source"
external c_fileset_reload : nativeint -> unit = "vp_fileset_reload"
external c_fileset_reload_now : nativeint -> unit = "vp_fileset_reload_now"
external c_fileset_init_dupsort : string -> int -> int -> nativeint = "vp_fileset_init_dupsort"
external c_fileset_partition : nativeint -> int -> nativeint * nativeint = "vp_fileset_partition"

let engine = "fs"
let rule = "histories (length 4..30) over: rewrite the setfile (add/remove/replace names, relative and absolute lines, lines naming missing files and files that are not tables, a file named twice), create/delete table files, advance the clock (whole seconds + random nanoseconds, around the reload interval), mtbl_fileset_reload, mtbl_fileset_reload_now, open an iterator on a handle (iter, get of a present / absent key, get_prefix, get_range, iter or range followed by a seek), close an iterator (it is drained at that moment: pinned snapshot), dup a handle with other filename/reader filters and interval in {0, n, NEVER}, destroy handles. Observed: the set of tables every iterator returns (from the merged value of a key all tables hold) and the complete key sequence it returns, compared with the merge of the tables of the model view within the range / after the seek target (tables hold keys of their own that interleave; seek targets where every file has a different head key). Non-trivial: history contains a setfile change followed by an open; distinct by history."

type xop =
  | XSetFile of int list | XCreate of int * int (* name, table id; id < 0: not a table *) | XDelete of int
  | XAdvance of int * int | XReload of int | XReloadNow of int | XOpen of int * int (* handle, 0 iter / 1 get hit / 2 get miss / 3 get_prefix "x" / 4 get_range "x".."x" / 5 iter + seek "x" / 6 get_prefix "" / 7 get_range "a".."z" + seek "x" *)
  | XClose of int | XDup of int * int * int * int | XDestroy of int
  | XPartition of int * int   (* handle, 1 + parity accepted by the filename callback: mtbl_fileset_partition; only as the last operation before the closing part of a history *)

let xop_json = function
  | XSetFile l -> JL (JS "setfile" :: List.map (fun n -> JI n) l)
  | XCreate (n, t) -> JL [ JS "create"; JI n; JI t ] | XDelete n -> JL [ JS "delete"; JI n ]
  | XAdvance (s, ns) -> JL [ JS "advance"; JI s; JI ns ] | XReload h -> JL [ JS "reload"; JI h ] | XReloadNow h -> JL [ JS "reload_now"; JI h ]
  | XOpen (h, k) -> JL [ JS "open"; JI h; JS (match k with 0 -> "iter" | 1 -> "get(x)" | 2 -> "get(absent)" | 3 -> "get_prefix(x)" | 4 -> "get_range(x,x)" | 5 -> "iter;seek(x)" | 6 -> "get_prefix()" | 7 -> "get_range(a,z);seek(x)" | 8 -> "iter;seek(m1)" | 9 -> "get_range(a,z);seek(m2)" | _ -> "get_prefix(m);seek(m1)") ]
  | XClose i -> JL [ JS "close"; JI i ]
  | XDup (h, iv, nf, rf) -> JL [ JS "dup"; JI h; JI iv; JI nf; JI rf ] | XDestroy h -> JL [ JS "destroy"; JI h ]
  | XPartition (h, par) -> JL [ JS "partition"; JI h; JI (par - 1) ]

(* names 6.. live in a subdirectory of the setfile's directory: their setfile lines are relative paths with a
   directory part, which the fileset resolves against the directory of the setfile (not the working directory) *)
let name_of n = if n >= 6 then Printf.sprintf "sub/t%02d.mtbl" n else Printf.sprintf "t%02d.mtbl" n
(* how a name is written in the setfile; a function of the name only, so that the same file is always named by
   the same string (the fileset recognises an already-loaded file by its path string) *)
let line_of dir n = match n mod 4 with
  | 1 -> Filename.concat dir (name_of n)              (* absolute *)
  | 2 -> "./" ^ name_of n                             (* relative, with a directory part *)
  | _ -> name_of n
(* the text of a setfile naming [lines]; last_newline = false: the last line is not newline-terminated *)
let setfile_text dir (lines : int list) ~last_newline =
  let nl = List.length lines in
  String.concat "" (List.mapi (fun i n -> line_of dir n ^ (if i = nl - 1 && not last_newline then "" else "\n")) lines)
let setfile_last_newline step = step mod 3 <> 1
let filt f = if f = 0 then None else Some (n_of_int (f - 1))

let to_model (ops : xop list) : fop list =
  List.map (function
    | XSetFile l -> OpSetFile (List.map n_of_int (List.sort_uniq compare l))   (* a path named twice counts once: T07 assumes distinct lines, my_fileset_reload keeps one entry per path *)
    | XCreate (n, t) -> OpCreate (n_of_int n, (if t >= 0 then FTable (n_of_int t) else FNotTable))
    | XDelete n -> OpDelete (n_of_int n)
    | XAdvance (s, ns) -> OpAdvance (n_of_int s, n_of_int ns)
    | XReload h -> OpReload (nat_of_int h) | XReloadNow h -> OpReloadNow (nat_of_int h)
    | XOpen (h, _) -> OpOpen (nat_of_int h) | XClose i -> OpClose (nat_of_int i)
    | XDup (h, iv, nf, rf) -> OpDup (nat_of_int h, n_of_int iv, filt nf, filt rf)
    | XDestroy h -> OpDestroy (nat_of_int h)
    | XPartition _ -> OpAdvance (N0, N0)     (* placeholder that leaves the model state unchanged; the partition itself is evaluated apart *)) ops

(* the entries of table id t: ("x", "T<t>"), fillers "f000".. shared by the tables (merged values) so that
   count_entries = 8 + t, and keys of its own that interleave with those of the other tables ("m<j>t<t>", "y<t>"):
   the merged sequence of a view depends on every file and on the order the merger's heap keeps *)
let table_keys t =
  List.init (t + 2) (fun i -> Printf.sprintf "f%03d" i) @ List.init 4 (fun j -> Printf.sprintf "m%dt%d" j t) @ [ "x"; Printf.sprintf "y%d" t ]
let write_table path t =
  (try Sys.remove path with _ -> ());
  let fd = Wr.c_open_rw path true in
  let w = Wr.c_writer_init_fd fd (0, false, 0, false, 0, false, 0, 0n) in
  List.iter (fun k -> ignore (Wr.c_writer_add w k (if k = "x" then Printf.sprintf "T%d" t else ""))) (table_keys t);
  Wr.c_writer_destroy w; Wr.c_close fd

(* the keys an iterator of kind [kind] must return over the tables [view] (table ids) *)
let expected_keys kind (view : int list) : string list =
  let all = List.sort_uniq compare (List.concat_map table_keys view) in
  let has_prefix p k = String.length k >= String.length p && String.sub k 0 (String.length p) = p in
  match kind with
  | 0 | 6 -> all
  | 1 | 3 | 4 -> List.filter (fun k -> k = "x") all
  | 2 -> []
  | 5 | 7 -> List.filter (fun k -> k >= "x" && k <= "z") all
  | 8 -> List.filter (fun k -> k >= "m1") all
  | 9 -> List.filter (fun k -> k >= "m2" && k <= "z") all
  | _ -> List.filter (fun k -> has_prefix "m" k && k >= "m1") all

let run_impl dir ~interval ~nf ~rf (ops : xop list) : child_end =
  in_child (fun () ->
    let setfile = Filename.concat dir "set.fileset" in
    let mtime = ref 1000.0 in
    (* last_newline = false: the last line is not newline-terminated (a setfile written by printf '%s' or an editor) *)
    let write_setfile ?(last_newline = true) (lines : int list) ~absolute =
      let oc = open_out setfile in
      ignore absolute;
      output_string oc (setfile_text dir lines ~last_newline);
      close_out oc;
      mtime := !mtime +. 1.0; Unix.utimes setfile !mtime !mtime in
    (try Unix.mkdir (Filename.concat dir "sub") 0o755 with _ -> ());
    write_setfile [] ~absolute:false;
    let sec = ref 1000 and nsec = ref 0 in
    c_set_clock !sec !nsec;
    let mc = Mg.c_merge_clos_new 1 0 in
    let handles = ref [| c_fileset_init setfile interval mc nf rf |] in
    let iters = ref [||] in
    let outs = ref [] and keyouts = ref [] and parts = ref None in
    let drain it =
      let tables = ref [] and keys = ref [] in
      if it <> 0n then begin
        let continue = ref true in
        while !continue do
          match Rd.c_iter_next it with
          | Some (k, v) -> keys := k :: !keys;
            if k = "x" then tables := List.map (fun a -> int_of_string (String.sub a 1 (String.length a - 1))) (String.split_on_char '|' v)
          | None -> continue := false
        done
      end; (List.sort compare !tables, List.rev !keys) in
    List.iteri (fun step op ->
      (match op with
       | XSetFile l -> write_setfile l ~absolute:(step mod 2 = 0) ~last_newline:(setfile_last_newline step)
       | XCreate (n, t) ->
         let p = Filename.concat dir (name_of n) in
         (* a path is always re-created (new inode), never rewritten in place: a loaded table stays mapped, and table
            files are immutable - truncating one under a reader is outside the property *)
         if t >= 0 then write_table p t else ((try Sys.remove p with _ -> ()); let oc = open_out p in output_string oc "this is not an mtbl file\n"; close_out oc)
       | XDelete n -> (try Sys.remove (Filename.concat dir (name_of n)) with _ -> ())
       | XAdvance (s, ns) -> c_advance_clock s ns
       | XReload h -> c_fileset_reload !handles.(h)
       | XReloadNow h -> c_fileset_reload_now !handles.(h)
       | XOpen (h, kind) ->
         let src = c_fileset_source !handles.(h) in
         let it = (match kind with
             | 0 -> Rd.c_source_iter src | 1 -> Rd.c_source_get src "x" | 2 -> Rd.c_source_get src "absent-key"
             | 3 -> Rd.c_source_get_prefix src "x" | 4 -> Rd.c_source_get_range src "x" "x"
             | 5 -> let it = Rd.c_source_iter src in if it <> 0n then ignore (Rd.c_iter_seek it "x"); it
             | 6 -> Rd.c_source_get_prefix src ""
             | 7 -> let it = Rd.c_source_get_range src "a" "z" in if it <> 0n then ignore (Rd.c_iter_seek it "x"); it
             (* seeks to keys that differ from file to file: the merger rebuilds its heap over distinct head keys *)
             | 8 -> let it = Rd.c_source_iter src in if it <> 0n then ignore (Rd.c_iter_seek it "m1"); it
             | 9 -> let it = Rd.c_source_get_range src "a" "z" in if it <> 0n then ignore (Rd.c_iter_seek it "m2"); it
             | _ -> let it = Rd.c_source_get_prefix src "m" in if it <> 0n then ignore (Rd.c_iter_seek it "m1"); it) in
         iters := Array.append !iters [| (it, kind, step) |]
       | XClose i ->
         let (it, kind, ostep) = !iters.(i) in
         let (v, keys) = drain it in
         if kind <> 2 && kind <> 10 then outs := (ostep, v) :: !outs;    (* kinds whose range holds the key "x" *)
         keyouts := (ostep, kind, keys) :: !keyouts;
         if it <> 0n then Rd.c_iter_destroy it;
         !iters.(i) <- (0n, kind, ostep)
       | XDup (h, iv, f1, f2) -> handles := Array.append !handles [| c_fileset_dup !handles.(h) iv mc f1 f2 |]
       | XDestroy h -> c_fileset_destroy !handles.(h); !handles.(h) <- 0n
       | XPartition (h, par) ->
         let (m1, m2) = c_fileset_partition !handles.(h) par in
         let dr m = let it = Rd.c_source_iter (Mg.c_merger_source m) in let r = drain it in if it <> 0n then Rd.c_iter_destroy it; r in
         let r1 = dr m1 in let r2 = dr m2 in
         Mg.c_merger_destroy m1; Mg.c_merger_destroy m2;
         parts := Some (r1, r2))) ops;
    "DONE" ^ Marshal.to_string (List.rev !outs, List.rev !keyouts, !parts) [])

(* history generator: well-formed usage *)
let gen_history st : int * int * int * xop list =
  let interval = (match rint st 3 with 0 -> 0 | 1 -> rrange st 1 5 | _ -> 0xFFFFFFFF) in
  let nf = rint st 3 and rf = if rint st 4 = 0 then rrange st 1 2 else 0 in
  let nh = ref 1 in
  let alive = ref [ 0 ] in
  let handle_iv = ref [ (0, interval) ] in
  let open_iters = ref [] in
  let niters = ref 0 in
  let ops = ref [] in
  let files = ref [] in
  let add o = ops := o :: !ops in
  let len = rrange st 4 30 in
  for _ = 1 to len do
    let h () = List.nth !alive (rint st (List.length !alive)) in
    (match rint st 14 with
     | 0 | 1 -> let n = rint st 8 in add (XCreate (n, (if rint st 7 = 0 then -1 else rint st 6))); files := n :: !files
     | 2 -> let l = List.sort_uniq compare (List.init (rint st 5) (fun _ -> rint st 9)) in
       (* every sixth setfile names one of its files twice (adjacent or not) *)
       add (XSetFile (if l <> [] && rint st 6 = 0 then (let d = List.nth l (rint st (List.length l)) in
                                                        match rint st 3 with 0 -> l @ [ d ] | 1 -> d :: l
                                                                             | _ -> List.map (fun x -> if rbool st then d else x) l   (* some names replaced by d: same number of lines *)) else l))
     | 3 -> if !files <> [] then add (XDelete (List.nth !files (rint st (List.length !files))))
     | 4 | 5 -> add (XAdvance ((match rint st 4 with 0 -> 0 | 1 -> 1 | 2 -> rrange st 1 6 | _ -> rrange st 0 2), rint st 999999999))
     | 6 -> add (XReload (h ()))
     | 7 -> add (XReloadNow (h ()))
     | 8 | 9 | 10 -> add (XOpen (h (), (if rint st 2 = 0 then rint st 3 else rint st 11))); open_iters := !niters :: !open_iters; incr niters
     | 11 -> (match !open_iters with [] -> () | l -> let i = List.nth l (rint st (List.length l)) in add (XClose i); open_iters := List.filter (fun x -> x <> i) l)
     | 12 -> if !nh < 4 then begin
         add (XDup (h (), (match rint st 3 with 0 -> 0 | 1 -> rrange st 1 4 | _ -> 0xFFFFFFFF), rint st 3, (if rint st 4 = 0 then rrange st 1 2 else 0)));
         alive := !nh :: !alive; incr nh end
     | _ -> ())
  done;
  (* sometimes: mtbl_fileset_partition on a live handle, by the parity of the file number, as the last operation *)
  if rint st 3 = 0 then add (XPartition (List.nth !alive (rint st (List.length !alive)), 1 + rint st 2));
  (* close everything that is still open (drains them), then destroy handles in random order *)
  List.iter (fun i -> add (XClose i)) (List.rev !open_iters);
  let order = List.sort (fun _ _ -> if rbool st then 1 else -1) !alive in
  List.iter (fun hd -> add (XDestroy hd)) order;
  ignore handle_iv;
  (interval, nf, rf, List.rev !ops)

let check acc ~klass (interval, nf, rf, ops) =
  let case = lazy (JO [ "interval", JI interval; "name_filter", JI nf; "reader_filter", JI rf; "history", JL (List.map xop_json ops) ]) in
  let nontrivial = (let rec go seen = function [] -> false | XSetFile _ :: tl -> go true tl | XOpen _ :: tl -> seen || go seen tl | _ :: tl -> go seen tl in go false ops) in
  record acc ~key:(json_to_string (Lazy.force case)) ~nontrivial ~klass case;
  (* model *)
  let w0 = { w_set_ino = n_of_int 1; w_set_mtime = n_of_int 1; w_set_lines = []; w_files = []; w_sec = n_of_int 1000; w_nsec = N0 } in
  let mouts = frun (fs_init w0 (n_of_int interval) (filt nf) (filt rf)) (to_model ops) in
  (* views by the step at which the iterator was opened; get(absent) iterators carry no view *)
  let mviews = List.filter_map (fun x -> x)
      (List.mapi (fun step (op, o) -> match op, o with
         | XOpen (_, 2), _ -> None
         | XOpen _, OutView l -> Some (step, `View (List.sort compare (List.map int_of_n l)))
         | XOpen _, OutUAF -> Some (step, `UAF)
         | _ -> None) (List.combine ops mouts)) in
  if List.exists (fun (_, v) -> v = `UAF) mviews then
    fail acc ~kind:"model_mismatch" ~what:"[C07] the model itself uses a destroyed reader (theorem T07a would be false)" (Lazy.force case);
  let dir = Filename.concat (Wr.tmpdir ()) (Printf.sprintf "fs_%d" (Unix.getpid ())) in
  ignore (Sys.command (Printf.sprintf "rm -rf %s && mkdir -p %s" (Filename.quote dir) (Filename.quote dir)));
  (* the text of every setfile of the history, read by model/Setfile.v (getline / strlen / one newline stripped / the
     directory of the setfile in front of relative names - T07g): the names the history means, with and without the
     newline after the last one *)
  List.iteri (fun step op ->
    match op with
    | XSetFile l ->
      let text = setfile_text dir l ~last_newline:(setfile_last_newline step) in
      let got = List.map string_of_nl (setfile_names (nl_of_string dir) (nl_of_string text)) in
      let want_names = List.map (fun n -> let ln = line_of dir n in if String.length ln > 0 && ln.[0] = '/' then ln else dir ^ "/" ^ ln) l in
      bump acc "setfile_texts_read_by_the_model";
      if got <> want_names then
        fail acc ~kind:"model_mismatch" ~what:"[C07] the names model/Setfile.v reads from the setfile text are not the names the history wrote (T07g)"
          (JO [ "case", Lazy.force case; "step", JI step; "text", jbytes text ])
    | _ -> ()) ops;
  (* mtbl_fileset_partition: the model (model/FilesetPart.v, T07f) on the state the history has reached *)
  let mpart = (let rec split acc = function [] -> None | XPartition (h, par) :: _ -> Some (List.rev acc, h, par) | o :: tl -> split (o :: acc) tl in
               match split [] ops with
               | None -> None
               | Some (prefix, h, par) ->
                 let st = fstate_after (fs_init w0 (n_of_int interval) (filt nf) (filt rf)) (to_model prefix) in
                 Some (snd (fileset_partition st (nat_of_int h) (parity_cb (n_of_int (par - 1)))))) in
  (match run_impl dir ~interval ~nf ~rf ops with
   | Signaled (sg, _) when sg = Sys.sigabrt && mpart = Some PAbort ->
     (* observation O8: a loaded entry whose file is not a table makes mtbl_fileset_partition call mtbl_reader_source(NULL),
        which asserts; the model says the same *)
     bump acc "partition_abort_on_non_table(O8)"
   | Exited (_, s) when String.length s > 4 && String.sub s 0 4 = "DONE" && mpart = Some PAbort ->
     ignore s;
     fail acc ~kind:"model_mismatch" ~what:"[C07] mtbl_fileset_partition returned although the model (a loaded entry without reader) predicts the assertion of mtbl_reader_source" (Lazy.force case)
   | Exited (_, s) when String.length s > 4 && String.sub s 0 4 = "DONE" ->
     let (iouts, keyouts, parts) : (int * int list) list * (int * int * string list) list * ((int list * string list) * (int list * string list)) option = Marshal.from_string s 4 in
     (match mpart, parts with
      | Some (POk (m1, m2)), Some ((t1, k1), (t2, k2)) ->
        bump acc "partition_compared";
        let tabs m = List.sort compare (List.map (fun (_, t) -> int_of_n t) m) in
        if (t1, t2) <> (tabs m1, tabs m2) then
          fail acc ~kind:"model_mismatch" ~what:"[C07] mtbl_fileset_partition: tables in the two mergers differ from the model (T07f_partition)"
            (JO [ "case", Lazy.force case; "impl", JS (Printf.sprintf "[%s] / [%s]" (String.concat "," (List.map string_of_int t1)) (String.concat "," (List.map string_of_int t2)));
                  "model", JS (Printf.sprintf "[%s] / [%s]" (String.concat "," (List.map string_of_int (tabs m1))) (String.concat "," (List.map string_of_int (tabs m2)))) ])
        else if k1 <> expected_keys 0 t1 || k2 <> expected_keys 0 t2 then
          fail acc ~kind:"spec_violation" ~what:"[C07] a merger made by mtbl_fileset_partition does not return the merge of its files" (Lazy.force case)
      | Some (POk _), None -> fail acc ~kind:"model_mismatch" ~what:"[C07] harness error: partition result missing" (Lazy.force case)
      | _ -> ());
     let iouts = List.sort compare iouts in
     let no_x st = (match List.nth ops st with XOpen (_, 10) -> true | _ -> false) in
     let mv = List.sort compare (List.filter_map (fun (st, v) -> match v with `View l when not (no_x st) -> Some (st, l) | _ -> None) mviews) in
     if iouts <> mv then begin
       let show l = String.concat "; " (List.map (fun (st, v) -> Printf.sprintf "@%d:[%s]" st (String.concat "," (List.map string_of_int v))) l) in
       fail acc ~kind:"model_mismatch" ~what:"[C07] tables seen by the iterators" (JO [ "case", Lazy.force case; "impl", JS (show iouts); "model", JS (show mv) ]);
       fail acc ~kind:"spec_violation" ~what:"[C07] an iterator's view is not the merge of the files named in the setfile as of the most recent reload (restricted by the handle's filters), or a reload happened / failed to happen at the wrong moment"
         (JO [ "case", Lazy.force case; "got", JS (show iouts); "expected", JS (show mv) ])
     end else
       (* the whole content: every iterator returns, in ascending order and once each, exactly the keys that the tables
          of its view hold within the iterator's range and at or after its seek target *)
       List.iter (fun (ostep, kind, keys) ->
         match List.assoc_opt ostep mviews with
         | Some (`View l) ->
           let exp = expected_keys kind l in
           if keys <> exp then
             fail acc ~kind:"spec_violation" ~what:"[C07] an iterator on the fileset does not return the merge of the files of its view (keys missing, repeated or out of order)"
               (JO [ "case", Lazy.force case; "iterator_opened_at_step", JI ostep; "got", JS (String.concat " " keys); "expected", JS (String.concat " " exp) ])
         | _ -> ()) keyouts
   | Signaled (sg, _) ->
     fail acc ~kind:"spec_violation" ~what:(Printf.sprintf "[C07] the fileset stopped the process (signal %d): a handle used readers destroyed by a reload through another handle, or similar" sg) (Lazy.force case)
   | Exited (_, s) -> fail acc ~kind:"model_mismatch" ~what:"[C07] harness error" (JO [ "case", Lazy.force case; "msg", JS s ]));
  ignore (Sys.command (Printf.sprintf "rm -rf %s" (Filename.quote dir)))

(* a fileset configured with a dupsort function and no merge function (mtbl_fileset_options_set_dupsort_func): every entry
   of every file is returned, keys ascending, the entries of one key ordered by the dupsort function *)
let fileset_dupsort acc =
  List.iter (fun (kind, ids) ->
    let case = lazy (JO [ "op", JS "fileset with dupsort, no merge function"; "dupsort", JS (if kind = 1 then "ascending" else "descending"); "tables", JL (List.map (fun t -> JI t) ids) ]) in
    record acc ~key:(Printf.sprintf "dupsort%d-%s" kind (String.concat "," (List.map string_of_int ids))) ~nontrivial:true ~klass:"fileset_dupsort" case;
    let dir = Filename.concat (Wr.tmpdir ()) (Printf.sprintf "fsd_%d" (Unix.getpid ())) in
    ignore (Sys.command (Printf.sprintf "rm -rf %s && mkdir -p %s" (Filename.quote dir) (Filename.quote dir)));
    let r = in_child (fun () ->
        let setfile = Filename.concat dir "set.fileset" in
        List.iteri (fun i t -> write_table (Filename.concat dir (Printf.sprintf "d%d.mtbl" i)) t) ids;
        let oc = open_out setfile in List.iteri (fun i _ -> output_string oc (Printf.sprintf "d%d.mtbl\n" i)) ids; close_out oc;
        c_set_clock 1000 0;
        let f = c_fileset_init_dupsort setfile 0 kind in
        let it = Rd.c_source_iter (c_fileset_source f) in
        let out = ref [] in
        let continue = ref true in
        while !continue do (match Rd.c_iter_next it with Some e -> out := e :: !out | None -> continue := false) done;
        Rd.c_iter_destroy it; c_fileset_destroy f;
        "DONE" ^ Marshal.to_string (List.rev !out) []) in
    (match r with
     | Exited (_, s) when String.length s > 4 && String.sub s 0 4 = "DONE" ->
       let got : (string * string) list = Marshal.from_string s 4 in
       let all = List.concat_map (fun t -> List.map (fun k -> (k, (if k = "x" then Printf.sprintf "T%d" t else ""))) (table_keys t)) ids in
       let exp = List.sort (fun (k1, v1) (k2, v2) -> if k1 <> k2 then compare k1 k2 else if kind = 1 then compare v1 v2 else compare v2 v1) all in
       if got <> exp then
         fail acc ~kind:"spec_violation" ~what:"[C07,C04] a fileset with a dupsort function does not return every entry of its files, keys ascending, equal keys in dupsort order"
           (JO [ "case", Lazy.force case; "got", JS (String.concat " " (List.map (fun (k, v) -> k ^ "=" ^ v) got)) ])
     | _ -> fail acc ~kind:"spec_violation" ~what:"[C07,C04] a fileset with a dupsort function stopped the process" (Lazy.force case));
    ignore (Sys.command (Printf.sprintf "rm -rf %s" (Filename.quote dir))))
    [ (1, [ 3; 1; 4 ]); (2, [ 3; 1; 4 ]); (1, [ 2; 2 ]); (2, [ 0; 5; 1; 3 ]) ]

(* my_fileset_reload on arbitrary setfile TEXTS against model/Setfile.v (T07g): the paths it loads are the model's names
   that exist, sorted, each once.  Lines: names of existing and of missing files (relative, ./relative, absolute), empty
   lines (they name the setfile's directory, which exists), lines cut by a NUL byte, repeated lines, blanks, a last line
   with or without its newline *)
external c_my_fileset_names : string -> string list = "vp_my_fileset_names"
let check_setfile_text acc st =
  let dir = Filename.concat (Wr.tmpdir ()) (Printf.sprintf "fst_%d" (Unix.getpid ())) in
  ignore (Sys.command (Printf.sprintf "rm -rf %s && mkdir -p %s/sub" (Filename.quote dir) (Filename.quote dir)));
  let touch p = let oc = open_out p in output_string oc "x"; close_out oc in
  List.iter (fun n -> touch (Filename.concat dir n)) [ "a.mtbl"; "b.mtbl"; "sub/c.mtbl"; "d"; "e e" ];
  let line () = (match rint st 14 with
      | 0 -> "a.mtbl" | 1 -> "./b.mtbl" | 2 -> Filename.concat dir "sub/c.mtbl" | 3 -> "sub/c.mtbl" | 4 -> "missing.mtbl"
      | 5 -> "" | 6 -> "a.mtbl\000junk" | 7 -> "\000" | 8 -> "d" | 9 -> "e e" | 10 -> " a.mtbl" | 11 -> Filename.concat dir "d"
      | 12 -> "/nonexistent/x" | _ -> "b.mtbl") in
  let lines = List.init (rrange st 0 7) (fun _ -> line ()) in
  let text = String.concat "\n" lines ^ (if lines <> [] && rbool st then "" else if lines = [] then "" else "\n") in
  let case = lazy (JO [ "op", JS "my_fileset_reload on a setfile text"; "text", jbytes text ]) in
  record acc ~key:("text" ^ text) ~nontrivial:(List.length lines >= 2) ~klass:"setfile_text" case;
  let setfile = Filename.concat dir "set.fileset" in
  let oc = open_out_bin setfile in output_string oc text; close_out oc;
  (* model/Setfile.v: loaded_names (T07g_loaded_entries), the existence of a path being the file system's answer *)
  let expect = List.map string_of_nl (loaded_names (fun p -> Sys.file_exists (string_of_nl p)) (nl_of_string dir) (nl_of_string text)) in
  (match in_child (fun () -> "DONE" ^ Marshal.to_string (c_my_fileset_names setfile) []) with
   | Exited (_, s) when String.length s > 4 && String.sub s 0 4 = "DONE" ->
     let got : string list = Marshal.from_string s 4 in
     if got <> expect then
       fail acc ~kind:"model_mismatch" ~what:"[C07] the paths my_fileset_reload loads from this setfile text are not the names model/Setfile.v reads from it (those that exist, sorted, each once)"
         (JO [ "case", Lazy.force case; "impl", JL (List.map jbytes got); "model", JL (List.map jbytes expect) ])
   | Signaled (sg, _) -> fail acc ~kind:"spec_violation" ~what:(Printf.sprintf "[C07] my_fileset_reload stopped the process on a setfile text (signal %d)" sg) (Lazy.force case)
   | Exited (_, s) -> fail acc ~kind:"model_mismatch" ~what:"[C07] harness error" (JO [ "case", Lazy.force case; "msg", JS s ]));
  ignore (Sys.command (Printf.sprintf "rm -rf %s" (Filename.quote dir)))

let run ~tier ~seed ~only acc =
  let idx = ref 0 in
  let want () = cur_index := !idx; (match only with None -> true | Some i -> i = !idx) in
  let never = 0xFFFFFFFF in
  let directed = [
    (* the repaired defect: dup, both used, setfile drops a file, reload_now through A then B, iterate B *)
    (0, 0, 0, [ XCreate (1, 1); XCreate (2, 2); XSetFile [ 1; 2 ]; XDup (0, 0, 0, 0); XOpen (0, 0); XClose 0; XOpen (1, 0); XClose 1;
                XSetFile [ 2 ]; XAdvance (1, 5); XReloadNow 0; XReloadNow 1; XOpen (1, 0); XClose 2; XDestroy 0; XDestroy 1 ]);
    (* a get that matches nothing must not block later reloads *)
    (0, 0, 0, [ XCreate (1, 1); XSetFile [ 1 ]; XOpen (0, 2); XClose 0; XCreate (2, 2); XSetFile [ 1; 2 ]; XAdvance (2, 0); XReloadNow 0; XOpen (0, 0); XClose 1; XDestroy 0 ]);
    (* two reloads within the same second through different handles *)
    (0, 0, 0, [ XCreate (1, 1); XSetFile [ 1 ]; XDup (0, 0, 0, 0); XOpen (0, 0); XClose 0; XOpen (1, 0); XClose 1; XCreate (2, 2); XSetFile [ 1; 2 ];
                XAdvance (0, 1000); XReloadNow 1; XOpen (0, 0); XClose 2; XOpen (1, 0); XClose 3; XDestroy 1; XDestroy 0 ]);
    (* pinned snapshot: reload requested while an iterator is open *)
    (2, 0, 0, [ XCreate (1, 1); XCreate (2, 2); XSetFile [ 1 ]; XOpen (0, 0); XSetFile [ 1; 2 ]; XAdvance (5, 0); XReloadNow 0; XOpen (0, 0); XClose 0; XClose 1; XOpen (0, 0); XClose 2; XDestroy 0 ]);
    (* the interval counts whole seconds of the clock (tv_sec difference), whatever the nanoseconds: last reload at
       x.9 s, next operation 1.2 s (0.2 s) later, in the next-but-one (next) second - a reload is due *)
    (1, 0, 0, [ XCreate (1, 1); XSetFile [ 1 ]; XAdvance (0, 900000000); XOpen (0, 0); XClose 0; XCreate (2, 2); XSetFile [ 1; 2 ]; XAdvance (1, 200000000); XOpen (0, 0); XClose 1; XDestroy 0 ]);
    (0, 0, 0, [ XCreate (1, 1); XSetFile [ 1 ]; XAdvance (0, 900000000); XOpen (0, 0); XClose 0; XCreate (2, 2); XSetFile [ 1; 2 ]; XAdvance (0, 200000000); XOpen (0, 0); XClose 1; XDestroy 0 ]);
    (2, 0, 0, [ XCreate (1, 1); XSetFile [ 1 ]; XAdvance (0, 999999999); XOpen (0, 0); XClose 0; XCreate (2, 2); XSetFile [ 1; 2 ]; XAdvance (2, 1); XOpen (0, 0); XClose 1; XAdvance (0, 999999998); XOpen (0, 0); XClose 2; XDestroy 0 ]);
    (* interval edges and NEVER *)
    (3, 0, 0, [ XCreate (1, 1); XSetFile [ 1 ]; XOpen (0, 0); XClose 0; XCreate (2, 2); XSetFile [ 1; 2 ]; XAdvance (3, 0); XOpen (0, 0); XClose 1; XAdvance (1, 0); XOpen (0, 0); XClose 2; XDestroy 0 ]);
    (never, 0, 0, [ XCreate (1, 1); XSetFile [ 1 ]; XOpen (0, 0); XClose 0; XCreate (2, 2); XSetFile [ 1; 2 ]; XAdvance (100, 0); XOpen (0, 0); XClose 1; XReloadNow 0; XOpen (0, 0); XClose 2; XDestroy 0 ]);
    (* not-a-table and missing files, filters *)
    (0, 1, 2, [ XCreate (1, 1); XCreate (2, 2); XCreate (3, -1); XCreate (4, 4); XSetFile [ 1; 2; 3; 4; 7 ]; XOpen (0, 0); XClose 0; XDup (0, 0, 2, 0); XOpen (1, 0); XClose 1; XDestroy 0; XDestroy 1 ]);
    (* a file that is not a table in the middle of the setfile: the tables after it still belong to the view (no filters) *)
    (0, 0, 0, [ XCreate (1, 1); XCreate (2, -1); XCreate (3, 3); XCreate (4, 4); XCreate (8, -1); XSetFile [ 1; 2; 3; 4; 8 ]; XOpen (0, 0); XClose 0;
                XDup (0, 0, 0, 0); XOpen (1, 1); XClose 1; XSetFile [ 2; 3; 8 ]; XAdvance (2, 0); XReloadNow 0; XOpen (0, 0); XClose 2; XOpen (1, 0); XClose 3; XDestroy 1; XDestroy 0 ]);
    (* a loaded table is deleted but still named by the rewritten setfile: it leaves the view; recreated later: the new content *)
    (0, 0, 0, [ XCreate (1, 1); XCreate (2, 2); XCreate (3, 3); XSetFile [ 1; 2; 3 ]; XOpen (0, 0); XClose 0; XDelete 2; XSetFile [ 1; 2; 3 ]; XAdvance (2, 0); XReloadNow 0;
                XOpen (0, 0); XClose 1; XCreate (2, 5); XSetFile [ 1; 2; 3 ]; XAdvance (2, 0); XReloadNow 0; XOpen (0, 0); XClose 2; XDestroy 0 ]);
    (* a table stays loaded over several reloads of a changing setfile and is dropped later *)
    (0, 0, 0, [ XCreate (1, 1); XCreate (2, 2); XCreate (3, 3); XSetFile [ 1; 2 ]; XOpen (0, 0); XClose 0; XSetFile [ 1; 2; 3 ]; XAdvance (2, 0); XReloadNow 0; XOpen (0, 0); XClose 1;
                XSetFile [ 1; 3 ]; XAdvance (2, 0); XReloadNow 0; XOpen (0, 0); XClose 2; XSetFile [ 3 ]; XAdvance (2, 0); XReloadNow 0; XOpen (0, 0); XClose 3; XDestroy 0 ]);
    (* every iterator kind on two handles, a reload requested while they are open, and again after they closed *)
    (0, 0, 0, [ XCreate (1, 1); XCreate (2, 2); XSetFile [ 1; 2 ]; XDup (0, 0, 0, 0); XOpen (0, 3); XOpen (1, 4); XOpen (0, 5); XOpen (1, 6); XOpen (0, 7);
                XCreate (3, 3); XSetFile [ 2; 3 ]; XAdvance (2, 0); XReloadNow 1; XOpen (1, 3); XClose 0; XClose 1; XClose 2; XClose 3; XClose 4; XClose 5;
                XOpen (0, 4); XOpen (1, 7); XClose 6; XClose 7; XDestroy 0; XDestroy 1 ]);
    (* F12: a path named twice; the setfile rewritten (same lines) and reloaded twice: the reader of the duplicate was
       destroyed while an entry still pointed to it *)
    (0, 0, 0, [ XCreate (1, 1); XCreate (2, 2); XSetFile [ 1; 1; 2 ]; XOpen (0, 0); XClose 0; XSetFile [ 1; 1; 2 ]; XAdvance (2, 0); XReloadNow 0; XOpen (0, 0); XClose 1;
                XSetFile [ 1; 2; 1 ]; XAdvance (2, 0); XReloadNow 0; XOpen (0, 0); XClose 2; XSetFile [ 2; 1; 1 ]; XAdvance (2, 0); XReloadNow 0; XOpen (0, 8); XClose 3; XDestroy 0 ]);
    (0, 0, 0, [ XCreate (3, 3); XSetFile [ 3; 3 ]; XDup (0, 0, 0, 0); XOpen (1, 0); XClose 0; XSetFile [ 3; 3 ]; XAdvance (2, 0); XReloadNow 1; XSetFile [ 3; 3 ]; XAdvance (2, 0); XReloadNow 0;
                XOpen (0, 0); XOpen (1, 5); XClose 1; XClose 2; XDestroy 0; XDestroy 1 ]);
    (* a handle that is stale (a sibling reloaded a changed setfile) AND due for its own reload, which then finds the setfile
       unchanged: it must still be brought up to date - with a file added, and with a file removed (its reader is gone) *)
    (0, 0, 0, [ XCreate (1, 1); XCreate (2, 2); XSetFile [ 1 ]; XOpen (0, 0); XClose 0; XDup (0, 0, 0, 0); XOpen (1, 0); XClose 1;
                XSetFile [ 1; 2 ]; XAdvance (2, 0); XReloadNow 0; XAdvance (2, 0); XOpen (1, 0); XClose 2; XOpen (1, 8); XClose 3; XDestroy 1; XDestroy 0 ]);
    (1, 0, 0, [ XCreate (1, 1); XCreate (2, 2); XSetFile [ 1; 2 ]; XDup (0, 1, 0, 0); XOpen (0, 0); XClose 0; XOpen (1, 0); XClose 1;
                XSetFile [ 2 ]; XAdvance (3, 0); XReloadNow 0; XAdvance (3, 0); XOpen (1, 0); XClose 2; XAdvance (3, 0); XOpen (1, 5); XClose 3; XDestroy 0; XDestroy 1 ]);
    (* a rewrite that drops a file and names a loaded one twice (same number of lines as loaded entries, nothing new to load) *)
    (0, 0, 0, [ XCreate (1, 1); XCreate (2, 2); XCreate (3, 3); XSetFile [ 1; 2; 3 ]; XOpen (0, 0); XClose 0; XSetFile [ 1; 1; 3 ]; XAdvance (2, 0); XReloadNow 0; XOpen (0, 0); XClose 1;
                XSetFile [ 3; 3; 3 ]; XAdvance (2, 0); XReloadNow 0; XOpen (0, 0); XClose 2; XDestroy 0 ]);
    (* mtbl_fileset_partition: filters of the handle are not consulted; a dup; after a reload request; with a non-table loaded (O8) *)
    (0, 1, 2, [ XCreate (1, 1); XCreate (2, 2); XCreate (3, 3); XCreate (4, 4); XSetFile [ 1; 2; 3; 4 ]; XOpen (0, 0); XClose 0; XPartition (0, 1); XDestroy 0 ]);
    (0, 0, 0, [ XCreate (1, 1); XCreate (2, 2); XCreate (5, 0); XSetFile [ 1; 2; 5 ]; XDup (0, 0, 1, 0); XOpen (1, 0); XCreate (4, 4); XSetFile [ 2; 4; 5 ]; XAdvance (2, 0); XReloadNow 0;
                XPartition (1, 2); XClose 0; XDestroy 1; XDestroy 0 ]);
    (0, 0, 0, [ XCreate (1, 1); XCreate (2, -1); XCreate (3, 3); XSetFile [ 1; 2; 3 ]; XOpen (0, 0); XClose 0; XPartition (0, 1); XDestroy 0 ]);
    (0, 0, 0, [ XSetFile []; XPartition (0, 2); XDestroy 0 ]);
    (* seeks over 2, 4 and 6 files whose head keys at the target all differ, the files named last holding the smallest *)
    (0, 0, 0, [ XCreate (1, 5); XCreate (2, 3); XSetFile [ 1; 2 ]; XOpen (0, 8); XClose 0; XOpen (0, 9); XClose 1; XOpen (0, 10); XClose 2;
                XCreate (3, 4); XCreate (4, 1); XSetFile [ 1; 2; 3; 4 ]; XAdvance (2, 0); XReloadNow 0; XOpen (0, 8); XClose 3; XOpen (0, 9); XClose 4; XOpen (0, 10); XClose 5;
                XCreate (5, 2); XCreate (6, 0); XSetFile [ 1; 2; 3; 4; 5; 6 ]; XAdvance (2, 0); XReloadNow 0; XOpen (0, 8); XClose 6; XOpen (0, 0); XClose 7; XOpen (0, 5); XClose 8; XDestroy 0 ]);
  ] in
  List.iter (fun c -> if want () then check acc ~klass:"directed" c; incr idx) directed;
  if want () then fileset_dupsort acc; incr idx;
  for _ = 1 to (if tier = "thorough" then 2000 else 150) do
    if want () then check_setfile_text acc (case_rng ~seed ~engine ~index:!idx);
    incr idx
  done;
  let n = if tier = "thorough" then 4000 else 500 in
  for _ = 1 to n do
    if want () then check acc ~klass:"random_history" (gen_history (case_rng ~seed ~engine ~index:!idx));
    incr idx
  done
