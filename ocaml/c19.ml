(* C19: opening arbitrary bytes as a table.  The real mtbl_reader_init runs in a
   forked child with reader.c's mmap replaced by a guard-page copy of the file
   (last byte flush against a PROT_NONE page, or first byte right after one); the
   outcome class {NULL, reader, SIGABRT, SIGSEGV/SIGBUS} is compared with the
   model's reader_open, whose recorded read extents are proved to stay inside the
   file. *)
open Common
open Mtbl_model
type string = Stdlib.String.t

external c_set_mmap_mode : int -> unit = "vp_set_mmap_mode"
external c_reader_init_fd : int -> bool -> nativeint = "vp_reader_init_fd"

let engine = "c19"
let rule = "file contents: valid v2 tables from the real writer and v1/v2 tables from the independent encoder, then (a) every single-field mutation of the trailer's index offset to boundary values (0, around file size - 512 - {13,16}, 2^32, 2^63, 2^64 - k for k up to 600) and of either magic, (b) the index block's length prefix replaced by huge / overlong / truncated encodings in both format versions, (c) truncation to every length in sampled ranges, (c') files of 525..532 bytes whose index block starts with a 9- or 10-byte length varint, (d) random bytes and random byte flips in trailer and index header; each with and without verify_checksums and in both guard-page placements. Non-trivial: content differs from the valid base; distinct by content hash."

let sigsegv_like s = (s = Sys.sigsegv || s = Sys.sigbus)

let classify_impl path ~verify ~mode : string =
  match in_child (fun () ->
      c_set_mmap_mode mode;
      let r = Rd.c_reader_init path verify false in
      if r = 0n then "NULL" else (Rd.c_reader_destroy r; "READER")) with
  | Exited (_, s) -> s
  | Signaled (s, _) -> if sigsegv_like s then "SEGV" else if s = Sys.sigabrt then "ABORT" else Printf.sprintf "SIG%d" s

let classify_model (content : string) ~verify : string * bool =
  let (r, trace) = reader_open (nl_of_string content) verify in
  let n = String.length content in
  let inb = List.for_all (fun (o, l) -> int_of_n o + int_of_n l <= n || n_bits o > 40) trace
            && List.for_all (fun (o, l) -> n_bits o <= 40 && n_bits l <= 40 && int_of_n o + int_of_n l <= n) trace in
  ((match r with Ok None -> "NULL" | Ok (Some _) -> "READER" | Abort -> "ABORT" | Oob -> "OOB" | Fail -> "FAIL"), inb)

let check acc ~klass (content : string) (descr : json Lazy.t) =
  let path = Filename.concat (Wr.tmpdir ()) (Printf.sprintf "c19_%d.mtbl" (Unix.getpid ())) in
  Rd.write_file path content;
  List.iter (fun verify ->
    record acc ~key:(Digest.string content ^ (if verify then "v" else "n")) ~nontrivial:true ~klass descr;
    let (m, inb) = classify_model content ~verify in
    if m = "OOB" || not inb then
      fail acc ~kind:"model_mismatch" ~what:"[C19] the model itself reads outside the file (theorem T19a would be false)" (Lazy.force descr);
    List.iter (fun mode ->
      let i = classify_impl path ~verify ~mode in
      bump acc ("outcome_" ^ i);
      if i = "SEGV" || (String.length i > 3 && String.sub i 0 3 = "SIG") then
        fail acc ~kind:"spec_violation" ~what:"[C19] mtbl_reader_init accessed memory outside the file's bytes (fault on a guard page)"
          (JO [ "content", Lazy.force descr; "verify_checksums", JB verify; "guard_mode", JI mode; "outcome", JS i ]);
      if i <> m then
        fail acc ~kind:"model_mismatch" ~what:"[C19] outcome class of mtbl_reader_init"
          (JO [ "content", Lazy.force descr; "verify_checksums", JB verify; "guard_mode", JI mode; "impl", JS i; "model", JS m ])) [ 1; 2 ]) [ false; true ];
  (try Sys.remove path with _ -> ())

let set_le s off n (v : int64) =
  let b = Bytes.of_string s in
  for i = 0 to n - 1 do
    if off + i >= 0 && off + i < Bytes.length b then
      Bytes.set b (off + i) (Char.chr (Int64.to_int (Int64.logand (Int64.shift_right_logical v (8 * i)) 255L)))
  done; Bytes.to_string b
let get_le s off n = let v = ref 0L in for i = n - 1 downto 0 do v := Int64.logor (Int64.shift_left !v 8) (Int64.of_int (Char.code s.[off + i])) done; !v
let splice s off (repl : string) = (* overwrite bytes at off with repl (no length change) *)
  let b = Bytes.of_string s in
  String.iteri (fun i c -> if off + i < Bytes.length b then Bytes.set b (off + i) c) repl; Bytes.to_string b

(* handles whose size looks fine but which cannot be mapped for reading: a descriptor opened write-only on a valid table, a
   directory.  mmap fails; the open must return NULL (no reader, no access through the failed mapping) *)
let unmappable acc (valid_table : string) =
  let dir = Wr.tmpdir () in
  let path = Filename.concat dir (Printf.sprintf "c19_wo_%d.mtbl" (Unix.getpid ())) in
  Rd.write_file path valid_table;
  List.iter (fun (what, f) ->
    List.iter (fun verify ->
      let case = lazy (JO [ "handle", JS what; "verify_checksums", JB verify ]) in
      record acc ~key:("unmappable-" ^ what ^ (if verify then "v" else "n")) ~nontrivial:true ~klass:"unmappable_handle" case;
      (match in_child (fun () -> c_set_mmap_mode 0; if f verify = 0n then "NULL" else "READER") with
       | Exited (_, "NULL") -> ()
       | Exited (_, o) -> fail acc ~kind:"spec_violation" ~what:"[C19] a reader was returned for a handle that cannot be mapped" (JO [ "case", Lazy.force case; "outcome", JS o ])
       | Signaled (sg, _) -> fail acc ~kind:"spec_violation" ~what:"[C19] mtbl_reader_init on a handle that cannot be mapped accessed memory outside any file (the failed mapping)"
                               (JO [ "case", Lazy.force case; "signal", JI sg ]))) [ false; true ])
    [ ("table opened O_WRONLY, mtbl_reader_init_fd", (fun verify ->
          let fd = Unix.openfile path [ Unix.O_WRONLY ] 0 in let r = c_reader_init_fd (Obj.magic fd : int) verify in Unix.close fd; r));
      ("a directory, mtbl_reader_init", (fun verify -> Rd.c_reader_init dir verify false)) ];
  (try Sys.remove path with _ -> ())

let run ~tier ~seed ~only acc =
  let idx = ref 0 in
  let want () = cur_index := !idx; (match only with None -> true | Some i -> i = !idx) in
  let st0 = case_rng ~seed ~engine ~index:0 in
  (* base tables *)
  let es = Gen.rentries_blocks st0 ~nkeys:25 ~vlen:120 in
  let mk_enc version pad =
    let lay = { Enc.version; comp = 0; cuts = [ 6; 6; 6; 7 ]; restart_every = 3; max_share = true; prefix = ""; sep_choice = 0 } in
    match Enc.build_file st0 ~compress:(fun _ _ -> None) lay (List.map (fun (k, v) -> (k, v ^ String.make pad 'p')) es) with
    | Some f -> f | None -> "" in
  let bases = [ ("v2", mk_enc 2 0); ("v1", mk_enc 1 0);
                (* sizes that are exact multiples of the page size *)
                ("v2_page", (let f = mk_enc 2 0 in let extra = (4096 - (String.length f mod 4096)) mod 4096 in mk_enc 2 0 |> fun _ ->
                             let lay_pad = extra / 25 in let f2 = mk_enc 2 lay_pad in f2));
              ] in
  List.iter (fun (bname, base) ->
    let n = String.length base in
    let d what = lazy (JO [ "base", JS bname; "base_len", JI n; "mutation", JS what ]) in
    let c ~klass what content = if want () then check acc ~klass content (d what); incr idx in
    c ~klass:"valid_base" "none" base;
    if bname = "v2" && want () then unmappable acc base; if bname = "v2" then incr idx;
    let ibo_off = n - 512 in
    let ibo = get_le base ibo_off 8 in
    (* (a) index offset field *)
    let offs = [ 0L; 1L; Int64.of_int (n - 512); Int64.of_int (n - 512 - 13); Int64.of_int (n - 512 - 12); Int64.of_int (n - 512 - 14);
                 Int64.of_int (n - 512 - 16); Int64.of_int (n - 512 - 17); Int64.of_int (n - 512 - 15); Int64.of_int n; Int64.of_int (n + 1);
                 0x100000000L; Int64.min_int; Int64.max_int; -1L; Int64.add ibo 1L; Int64.sub ibo 1L ]
               @ List.init 40 (fun i -> Int64.neg (Int64.of_int (1 + i * 16)))      (* 2^64 - k *)
               @ List.map (fun k -> Int64.neg (Int64.of_int k)) [ 13; 14; 16; 17; 524; 525; 526; 527; 528; 529; 511; 512; 513 ] in
    List.iter (fun o -> c ~klass:"index_offset_field" (Printf.sprintf "index_block_offset := %Lu" o) (set_le base ibo_off 8 o)) offs;
    (* magic *)
    List.iter (fun m -> c ~klass:"magic" (Printf.sprintf "magic := 0x%Lx" m) (set_le base (n - 4) 4 m)) [ 0L; 0x77846676L; 0x4D54424CL; 0x4D54424DL; 0xffffffffL ];
    (* (b) index length prefix *)
    let io = Int64.to_int ibo in
    let prefixes = [ "\xff\xff\xff\x7f"; "\xff\xff\xff\xff\x0f"; "\xff\xff\xff\xff\xff\xff\xff\xff\xff\x01"; "\xff\xff\xff\xff\xff\xff\xff\xff\xff\xff";
                     "\x80\x80\x80\x80\x80\x80\x80\x80\x80\x80\x01"; "\x00"; "\x01"; "\x07"; "\x08"; "\x80\x01"; "\xff\xff\xff\xff"; "\x00\x00\x00\x80"; "\xff\xff\xff\x7f\x00" ] in
    List.iter (fun p -> c ~klass:"index_length_prefix" ("index length prefix := " ^ hex p) (splice base io p)) prefixes;
    (* exact remaining size +-1 *)
    let avail = n - 512 - io in
    List.iter (fun delta ->
      let v = avail - 5 + delta in
      if v >= 0 then c ~klass:"index_length_prefix" (Printf.sprintf "index length := %d" v)
          (splice base io (if bname = "v1" then Enc.le 4 v else Enc.varint v))) [ -2; -1; 0; 1; 2; 3; 4; 5; 6; 100 ];
    (* (c) truncations *)
    let cuts = List.sort_uniq compare ([ 0; 1; 511; 512; 513; 524; 525; 526; 527; 528; 529; 530; n - 1; n - 4; n - 512; n - 513; n - 511 ]
                                       @ List.init (if tier = "thorough" then 200 else 25) (fun _ -> rint st0 (n + 1))) in
    List.iter (fun k -> if k >= 0 && k <= n then c ~klass:"truncation" (Printf.sprintf "truncate to %d bytes" k) (String.sub base 0 k)) cuts;
    (* truncation keeping the trailer (cut from the front / the middle) *)
    List.iter (fun k -> if k >= 0 && k < n - 512 then c ~klass:"truncation" (Printf.sprintf "drop %d bytes before the trailer" k)
                  (String.sub base 0 (n - 512 - k) ^ String.sub base (n - 512) 512)) [ 1; 2; 13; 16; 100; io; io - 1 ];
    (* (d) random flips in trailer and index header *)
    let nr = if tier = "thorough" then 1500 else 60 in
    for _ = 1 to nr do
      if want () then begin
        let st = case_rng ~seed ~engine ~index:!idx in
        let b = Bytes.of_string base in
        let k = rrange st 1 4 in
        for _ = 1 to k do
          let pos = (match rint st 3 with 0 -> n - 512 + rint st 80 | 1 -> min (n - 1) (io + rint st 16) | _ -> n - 1 - rint st 4) in
          Bytes.set b pos (Char.chr (rint st 256))
        done;
        check acc ~klass:"random_flips" (Bytes.to_string b) (d "random byte flips in trailer / index header")
      end;
      incr idx
    done) bases;
  (* files barely longer than a trailer: 512 .. 540 bytes, a valid magic of either version at the end, and an index
     offset pointing inside, at the end, just past the end (the guard page) or far away.  Below 525 (v2) / 528 (v1)
     bytes no index block fits: every such file must be refused without a read outside it *)
  for n = 512 to 540 do
    List.iter (fun (mname, magic) ->
      List.iter (fun off ->
        if want () then begin
          let st = case_rng ~seed ~engine ~index:!idx in
          let body = if rbool st then String.make n '\000' else rbytes st n in
          let s = set_le (set_le body (n - 4) 4 magic) (n - 512) 8 off in
          check acc ~klass:"tiny_file" s (lazy (JO [ "file_len", JI n; "magic", JS mname; "index_block_offset", JS (Printf.sprintf "%Lu" off) ]))
        end;
        incr idx)
        [ 0L; 1L; 12L; 13L; 16L; Int64.of_int (n - 512); Int64.of_int n; Int64.of_int (n + 1); Int64.of_int (n + 100); 4000L;
          0x100000000L; Int64.min_int; -1L; -13L; -16L; -512L; -525L; -528L ])
      [ ("v2", 0x4D54424CL); ("v1", 0x77846676L) ]
  done;
  (* tiny files whose index block begins with a LONG length prefix (9 and 10 byte varints, overlong encodings of small
     numbers included): the header then is longer than the 13 bytes the offset check reserves *)
  for n = 525 to 532 do
    List.iter (fun (mname, magic) ->
      List.iter (fun off ->
        List.iter (fun pre ->
          if want () then begin
            let body = splice (String.make n '\000') off pre in
            let s = set_le (set_le body (n - 4) 4 magic) (n - 512) 8 (Int64.of_int off) in
            check acc ~klass:"tiny_file_long_prefix" s (lazy (JO [ "file_len", JI n; "magic", JS mname; "index_block_offset", JI off; "length_prefix", JS (hex pre) ]))
          end;
          incr idx)
          [ "\xd8\x84\x80\x80\x80\x80\x80\x80\x80\x00"; "\xff\xff\xff\xff\xff\xff\xff\xff\xff\x01"; "\x80\x80\x80\x80\x80\x80\x80\x80\x40";
            "\xff\xff\xff\xff\xff\xff\xff\xff\x7f"; "\x85\x80\x80\x80\x80\x80\x80\x80\x80\x00"; "\xff\xff\xff\xff\xff\xff\xff\xff\xff\x00" ])
        (List.filter (fun o -> o >= 0) [ 0; 1; n - 512 - 13; n - 512 - 14; n - 512 - 15 ]))
      [ ("v2", 0x4D54424CL); ("v1", 0x77846676L) ]
  done;
  (* random bytes *)
  let nr = if tier = "thorough" then 1000 else 40 in
  for _ = 1 to nr do
    if want () then begin
      let st = case_rng ~seed ~engine ~index:!idx in
      let n = (match rint st 3 with 0 -> rrange st 0 600 | 1 -> rrange st 512 4096 | _ -> 4096) in
      let s = rbytes st n in
      (* give half of them a valid magic so that the offset logic is reached *)
      let s = if n >= 512 && rbool st then set_le s (n - 4) 4 (if rbool st then 0x4D54424CL else 0x77846676L) else s in
      let s = if n >= 512 && rbool st then set_le s (n - 512) 8 (Int64.of_int (rint st (max 1 n))) else s in
      check acc ~klass:"random_bytes" s (lazy (JO [ "random_bytes_len", JI n; "hex_head", JS (hex (String.sub s 0 (min 16 n))) ]))
    end;
    incr idx
  done
