(* Engine "lk": resources (C18).  Well-formed API scenarios run in a forked child; after
   every operation the model ledger (model/Ledger.v: sum of the footprints of the live
   objects) is compared with the process: open descriptors, file-backed mappings of our
   files, files in the sorter temp directory, threads.  The whole scenario is then run
   twice more: the allocator's in-use bytes must not grow from one run to the next. *)
open Common
open Mtbl_model
type string = Stdlib.String.t

external c_heap_in_use : unit -> int64 = "vp_heap_in_use"
external c_fileset_partition : nativeint -> int -> nativeint * nativeint = "vp_fileset_partition"
external c_source_write : nativeint -> nativeint -> bool = "vp_source_write"

let engine = "lk"
let rule = "scenarios (parameters drawn per case): writers (pooled or not, refused adds, zero-thread pool), readers of tables and of non-table files, iterators of every kind abandoned before they are drained, mergers over several readers with undrained iterators, sorters with 1..n chunks (pooled or not) destroyed before iteration / after iteration / while chunk jobs are in flight / after a failing merge callback / after sorter_write into a writer that refuses the first key, filesets with dups, reloads and undrained iterators, thread pools shared by several users, sorters on a pool object of zero threads, mergers whose merge function returns values of length 0. Observed after every step: descriptors, mappings, temp files, threads; at the end: heap growth over repeated runs. Non-trivial: every scenario; distinct by (scenario, parameters)."

let count_dir d = try Array.length (Sys.readdir d) with _ -> 0
let fd_count () = count_dir "/proc/self/fd" - 1
let thread_count () = count_dir "/proc/self/task"
(* file mappings of our files: lines of /proc/self/maps naming them, adjacent lines of one file counted once (a mapping
   that posix_madvise split into two areas with different advice is still one mapping) *)
let map_count (needle : string) =
  let ic = open_in "/proc/self/maps" in
  let n = ref 0 in
  let prev_end = ref 0 and prev_inode = ref "" and prev_next_off = ref 0 in
  (try while true do
       let l = input_line ic in
       let has s sub = let ls = String.length s and lb = String.length sub in
         let rec go i = i + lb <= ls && (String.sub s i lb = sub || go (i + 1)) in go 0 in
       if has l needle || has l ".mtbl." then begin
         (* start-end perms offset dev inode path *)
         let f = List.filter (fun x -> x <> "") (String.split_on_char ' ' l) in
         let hexv x = (try int_of_string ("0x" ^ x) with _ -> -1) in
         let (st, en) = (match String.split_on_char '-' (List.nth f 0) with [ a; b ] -> (hexv a, hexv b) | _ -> (-1, -1)) in
         let off = hexv (List.nth f 2) and inode = List.nth f 4 in
         (* the continuation of the previous area: same file, adjacent addresses, consecutive file offsets *)
         if not (st = !prev_end && inode = !prev_inode && off = !prev_next_off) then incr n;
         prev_end := en; prev_inode := inode; prev_next_off := off + (en - st)
       end else (prev_end := 0; prev_inode := "")
     done with End_of_file -> ());
  close_in ic; !n

type obs = { step : string; fds : int; maps : int; tmp : int; threads : int; efds : int; emaps : int; ethreads : int option;
             op_model : (int * int * int * int) option (* (fds, maps, temp files, handler threads) of the operational model *) }

let led_of (objs : okind list) : led = ledger (List.mapi (fun i k -> (n_of_int i, k)) objs)

(* a scenario is a function that performs API calls and reports after each step the live
   object kinds (for the model) *)
type ctx = { dir : string; spill : string; mutable live : (int * okind) list; mutable next : int;
             mutable log : obs list; base_fds : int; base_threads : int; st : Random.State.t;
             mutable pool_threads_max : int;
             (* the same history for the OPERATIONAL resource model (model/Resources.v): when a scenario records its API calls
                as [rop]s, every observation is also compared with obs (rrun rops) *)
             mutable rops : rop list; mutable rops_on : bool }

let observe c step ~threads_exact =
  let l = ledger (List.map (fun (i, k) -> (n_of_int i, k)) c.live) in
  (* a thread that has been joined can stay listed in /proc/self/task for a moment (the kernel wakes the joiner before
     the task is unhashed): when more threads are listed than the ledger expects, look again for up to 2 s *)
  let threads_now () = thread_count () - c.base_threads in
  let tcount = (if not threads_exact then threads_now () else begin
      let want = int_of_n l.l_handler_threads in
      let n = ref (threads_now ()) and tries = ref 0 in
      while !n > want && !tries < 2000 do Unix.sleepf 0.001; incr tries; n := threads_now () done; !n end) in
  (* a worker thread that is running may hold a descriptor for a moment that is not the library's (glibc reads
     /sys/devices/system/cpu/online when a new thread first allocates): when more descriptors are open than the ledger
     expects, look again for up to 300 ms - a leak stays, a transient descriptor does not *)
  let fds_now () = fd_count () - c.base_fds in
  let fcount = (let want = int_of_n l.l_fds in
                let n = ref (fds_now ()) and tries = ref 0 in
                while !n > want && !tries < 300 do Unix.sleepf 0.001; incr tries; n := fds_now () done; !n) in
  let o = { step; fds = fcount; maps = map_count c.dir; tmp = count_dir c.spill;
            threads = tcount;
            efds = int_of_n l.l_fds; emaps = int_of_n l.l_maps;
            ethreads = (if threads_exact then Some (int_of_n l.l_handler_threads) else None);
            op_model = (if c.rops_on then (let (((a, b), t), h) = obs (rrun (List.rev c.rops)) in Some (int_of_n a, int_of_n b, int_of_n t, int_of_n h)) else None) } in
  c.log <- o :: c.log
let rop c (o : rop) = c.rops <- o :: c.rops
let create c k = let id = c.next in c.next <- id + 1; c.live <- (id, k) :: c.live; id
let update c id k = c.live <- List.map (fun (i, x) -> if i = id then (i, k) else (i, x)) c.live
let destroy c id = c.live <- List.filter (fun (i, _) -> i <> id) c.live

let mk_table c name n =
  let path = Filename.concat c.dir name in
  (try Sys.remove path with _ -> ());
  let fd = Wr.c_open_rw path true in
  let w = Wr.c_writer_init_fd fd (rint c.st 4, false, 0, true, 1024, false, 0, 0n) in
  for i = 0 to n - 1 do ignore (Wr.c_writer_add w (Printf.sprintf "k%04d" i) (String.make (rint c.st 200) 'v')) done;
  Wr.c_writer_destroy w; Wr.c_close fd; path

let sc_writer c =
  let pooled = rbool c.st in
  let nthreads = if pooled then rint c.st 3 else 0 in     (* a pool of zero threads is allowed *)
  let pool = if pooled then Wr.c_pool_init nthreads else 0n in
  let pid = if pooled then Some (create c (KPool (n_of_int nthreads))) else None in
  c.rops_on <- true;
  let mid = n_of_int in
  (match pid with Some p -> rop c (RPoolInit (mid p, n_of_int nthreads)) | None -> ());
  observe c "pool_init" ~threads_exact:true;
  let path = Filename.concat c.dir "w.mtbl" in
  (try Sys.remove path with _ -> ());
  let fd = Wr.c_open_rw path true in
  (* shapes that make the writer's buffers and vectors outgrow their initial capacity: keys of several hundred to
     several thousand bytes, a restart point at every entry of a large block (hundreds of restarts), many blocks *)
  let shape = rint c.st 4 in
  let (bs, ri_set, ri) = (match shape with 1 -> (65536, true, 1) | 2 -> (1024, true, 1) | _ -> (1024, false, 0)) in
  let w = Wr.c_writer_init_fd fd (rint c.st 6, false, 0, true, bs, ri_set, ri, pool) in
  Wr.c_close fd;
  let wid = create c (KWriter pooled) in
  rop c (RWriterInitFd (mid wid, (match pid with Some p -> Some (mid p) | None -> None)));
  observe c "writer_init" ~threads_exact:(not pooled || nthreads = 0);
  let n = (match shape with 1 -> rrange c.st 200 1500 | 3 -> rrange c.st 0 40 | _ -> rrange c.st 0 80) in
  for i = 0 to n do
    let base = Printf.sprintf "k%04d" (if rint c.st 5 = 0 then 0 else i) in
    let key = if shape = 3 then base ^ String.make (rrange c.st 250 5000) 'K' else base in
    let ok = Wr.c_writer_add w key (String.make (rint c.st 300) 'v') in
    rop c (RWriterAdd (mid wid, not ok, false, false))
  done;
  observe c "writer_adds(with refusals)" ~threads_exact:false;
  Wr.c_writer_destroy w; destroy c wid; rop c (RWriterDestroy (mid wid, false));
  observe c "writer_destroy" ~threads_exact:false;
  (match pid with Some p -> Wr.c_pool_destroy pool; destroy c p; rop c (RPoolDestroy (mid p)) | None -> ());
  observe c "pool_destroy" ~threads_exact:true

let sc_reader c =
  let path = mk_table c "r.mtbl" (rrange c.st 0 200) in
  let r = Rd.c_reader_init path (rbool c.st) (rbool c.st) in
  let rid = create c (KReader true) in
  c.rops_on <- true;
  let mid = n_of_int in
  rop c (RReaderInit (mid rid, true, RdOk));
  observe c "reader_init" ~threads_exact:true;
  let src = Rd.c_reader_source r in
  let its = List.init (rrange c.st 1 5) (fun i ->
    let it = (match i mod 4 with 0 -> Rd.c_source_iter src | 1 -> Rd.c_source_get src "k0003"
                                 | 2 -> Rd.c_source_get_prefix src "k00" | _ -> Rd.c_source_get_range src "k0001" "k0100") in
    let iid = 1000 + i in
    rop c (RSourceIter (mid iid, mid rid, (match i mod 4 with 0 -> QIter | 1 -> QGet | 2 -> QPrefix | _ -> QRange), Ioc (it <> 0n, false, [])));
    for _ = 1 to rint c.st 30 do ignore (Rd.c_iter_next it); rop c (RIterNext (mid iid)) done;
    if rbool c.st then (ignore (Rd.c_iter_seek it "k0050"); rop c (RIterSeek (mid iid)));
    (it, iid)) in
  observe c "iterators(undrained)" ~threads_exact:true;
  List.iter (fun (it, iid) -> if it <> 0n then Rd.c_iter_destroy it; rop c (RIterDestroy (mid iid))) its;
  (* a file that is not a table *)
  let bad = Filename.concat c.dir "bad.mtbl" in
  let oc = open_out bad in output_string oc (String.make (rrange c.st 0 2000) 'x'); close_out oc;
  let rb = Rd.c_reader_init bad false false in
  if rb <> 0n then Rd.c_reader_destroy rb;
  rop c (RReaderInit (mid 2000, true, (if (Unix.stat bad).Unix.st_size < 512 then RdTooSmall else RdBadMagic)));
  observe c "reader_init(non-table)" ~threads_exact:true;
  Rd.c_reader_destroy r; destroy c rid; rop c (RReaderDestroy (mid rid));
  observe c "reader_destroy" ~threads_exact:true

(* a table whose values are empty for most keys (a merge function that concatenates then yields empty merged values) *)
let mk_table_empty_values c name n =
  let path = Filename.concat c.dir name in
  (try Sys.remove path with _ -> ());
  let fd = Wr.c_open_rw path true in
  let w = Wr.c_writer_init_fd fd (rint c.st 4, false, 0, true, 1024, false, 0, 0n) in
  for i = 0 to n - 1 do ignore (Wr.c_writer_add w (Printf.sprintf "k%04d" i) (if i mod 5 = 4 then "x" else "")) done;
  Wr.c_writer_destroy w; Wr.c_close fd; path

let sc_merger c =
  let n = rrange c.st 1 4 in
  c.rops_on <- true;
  let mid = n_of_int in
  let empties = rint c.st 3 = 0 in      (* merged values of length 0: plain concatenation of empty values *)
  let mk_table c name n = if empties then mk_table_empty_values c name n else mk_table c name n in
  let rs = List.init n (fun i -> let p = mk_table c (Printf.sprintf "m%d.mtbl" i) (rrange c.st 1 100) in
                         let r = Rd.c_reader_init p false false in
                         let id = create c (KReader true) in
                         rop c (RReaderInit (mid id, true, RdOk)); (r, id)) in
  let mc = Mg.c_merge_clos_new (if empties then 2 else 1) (if rint c.st 4 = 0 then rrange c.st 1 5 else 0) in
  let m = Mg.c_merger_init mc 0 in
  let mgid = 3000 in
  rop c (RMergerInit (mid mgid));
  List.iter (fun (r, id) -> Mg.c_merger_add_source m (Rd.c_reader_source r); rop c (RMergerAddSource (mid mgid, mid id))) rs;
  observe c "merger_init" ~threads_exact:true;
  let msrc = Mg.c_merger_source m in
  let its = List.init (rrange c.st 1 3) (fun i ->
    let it = if i = 0 then Rd.c_source_iter msrc else Rd.c_source_get_range msrc "k0002" "k0030" in
    let iid = 3100 + i in
    (* the outcome tree only matters for heap objects, which are not observed per step: every source non-NULL and filled *)
    rop c (RSourceIter (mid iid, mid mgid, (if i = 0 then QIter else QRange), Ioc (it <> 0n, true, List.map (fun _ -> Ioc (true, true, [])) rs)));
    for _ = 1 to rint c.st 40 do ignore (Rd.c_iter_next it); rop c (RIterNext (mid iid)) done; (it, iid)) in
  observe c "merger_iterators(undrained, maybe failing merge)" ~threads_exact:true;
  List.iter (fun (it, iid) -> if it <> 0n then Rd.c_iter_destroy it; rop c (RIterDestroy (mid iid))) its;
  Mg.c_merger_destroy m; Mg.c_merge_clos_free mc; rop c (RMergerDestroy (mid mgid));
  List.iter (fun (r, id) -> Rd.c_reader_destroy r; destroy c id; rop c (RReaderDestroy (mid id))) rs;
  observe c "merger_destroy" ~threads_exact:true

let sc_sorter c =
  let pooled = rbool c.st in
  let nthreads = if pooled then rrange c.st 0 4 else 0 in      (* a pool object with zero threads: the sorter still has its handler thread *)
  let pool = if pooled then Wr.c_pool_init nthreads else 0n in
  let pid = if pooled then Some (create c (KPool (n_of_int nthreads))) else None in
  let fail_at = if rint c.st 5 = 0 then rrange c.st 1 6 else 0 in
  (* merge function: concatenation, or (every third case) one that returns one of its operands - the larger / the smaller
     by (length, bytes) - so that merged values are not longer than what they replace *)
  let mkind = (match rint c.st 6 with 0 -> 3 | 1 -> 4 | _ -> 1) in
  let mc = Mg.c_merge_clos_new mkind fail_at in
  let maxmem = (match rint c.st 3 with 0 -> 1 | 1 -> rrange c.st 100 2000 | _ -> 100000000) in
  let s = So.c_sorter_init maxmem c.spill mc pool in
  let sid = create c (KSorter (pooled, N0)) in
  (* without a pool and without a failing merge callback the scenario is also run on the operational model *)
  let mid = n_of_int in
  let opm = not pooled && fail_at = 0 in
  if opm then (c.rops_on <- true; rop c (RSorterInit (mid 6400, None)));
  observe c "sorter_init" ~threads_exact:(not pooled);
  let n = rrange c.st 0 120 in
  let failed = ref false in
  for i = 0 to n - 1 do
    let k = Printf.sprintf "k%03d" (rint c.st 40) in
    let k = if maxmem > 100000 && rint c.st 3 = 0 then k ^ String.make (rrange c.st 257 2000) 'K' else k in
    let before = So.c_mkstemp_count () in
    if not (So.c_sorter_add s k (if mkind = 1 then Printf.sprintf "a%d" i else String.make (rint c.st 20) (Char.chr (97 + i mod 26)))) then failed := true;
    if opm then rop c (RSorterAdd (mid 6400, (if So.c_mkstemp_count () > before then Some [ CWrite ] else None), false))
  done;
  let mode = rint c.st 4 in
  if opm && mode = 3 then c.rops_on <- false;      (* mtbl_sorter_write: not followed on the operational model here *)
  if not pooled && fail_at = 0 then begin
    update c sid (KSorter (false, n_of_int (So.c_mkstemp_count ())));
    observe c "sorter_adds" ~threads_exact:true
  end;
  (* destroy at different points of the life cycle; with a pool, possibly while jobs are in flight *)
  (match mode with
   | 0 -> ()                                            (* destroyed before iteration *)
   | _ when fail_at > 0 && maxmem = 100000000 && not !failed && not pooled ->
     (* everything is still buffered: the failing merge callback strikes in the final flush of sorter_iter *)
     let it = So.c_sorter_iter s in
     if it <> 0n then Rd.c_iter_destroy it
   | 1 | 2 when not (!failed || fail_at > 0) ->
     let before = So.c_mkstemp_count () in
     let it = So.c_sorter_iter s in
     let nchunks = So.c_mkstemp_count () in
     if opm then rop c (RSorterIter (mid 6401, mid 6400, (if nchunks > before then [ CWrite ] else []),
                                     Ioc (it <> 0n, true, List.init nchunks (fun _ -> Ioc (true, true, []))), false));
     if opm then (update c sid (KSorter (false, n_of_int nchunks)); observe c "sorter_iter" ~threads_exact:true);
     for _ = 1 to rint c.st 50 do ignore (Rd.c_iter_next it); if opm then rop c (RIterNext (mid 6401)) done;
     if it <> 0n then (Rd.c_iter_destroy it; if opm then rop c (RIterDestroy (mid 6401)))
   | 3 when not (!failed || fail_at > 0) ->
     (* sorter_write into a writer that refuses the first key *)
     let path = Filename.concat c.dir "sw.mtbl" in
     (try Sys.remove path with _ -> ());
     let fd = Wr.c_open_rw path true in
     let w = Wr.c_writer_init_fd fd (0, false, 0, false, 0, false, 0, 0n) in
     Wr.c_close fd;
     if rbool c.st then ignore (Wr.c_writer_add w "zzzz" "blocker");
     ignore (So.c_sorter_write s w);
     Wr.c_writer_destroy w
   | _ -> ());
  So.c_sorter_destroy s; destroy c sid; Mg.c_merge_clos_free mc;
  if opm then rop c (RSorterDestroy (mid 6400));
  observe c "sorter_destroy" ~threads_exact:(not pooled);
  (match pid with Some p -> Wr.c_pool_destroy pool; destroy c p | None -> ());
  observe c "pool_destroy" ~threads_exact:true

(* the merge callback fails inside the final flush of mtbl_sorter_iter (everything still buffered) *)
let sc_sorter_final_flush_fails c =
  let mc = Mg.c_merge_clos_new 1 (rrange c.st 1 3) in
  let s = So.c_sorter_init 100000000 c.spill mc 0n in
  let sid = create c (KSorter (false, N0)) in
  c.rops_on <- true;
  let mid = n_of_int in
  rop c (RSorterInit (mid sid, None));
  for i = 0 to rrange c.st 8 40 do ignore (So.c_sorter_add s (Printf.sprintf "k%d" (i mod 3)) (Printf.sprintf "a%d" i)); rop c (RSorterAdd (mid sid, None, false)) done;
  let it = So.c_sorter_iter s in
  if it <> 0n then Rd.c_iter_destroy it;
  (* everything was buffered; the merge callback fails inside the final flush: mtbl_sorter_iter returns NULL *)
  rop c (RSorterIter (mid 4000, mid sid, [ CWrite; CMergeFail ], oc_default, false));
  if it <> 0n then rop c (RIterDestroy (mid 4000));
  observe c "sorter_iter(final flush fails)" ~threads_exact:true;
  So.c_sorter_destroy s; destroy c sid; Mg.c_merge_clos_free mc; rop c (RSorterDestroy (mid sid));
  observe c "sorter_destroy" ~threads_exact:true

(* mtbl_sorter_write into a writer that already holds a greater key: the add is refused, the
   write reports failure, and the iterator it created (one reader iterator per chunk) must be gone *)
let sc_sorter_write_refused c =
  let mc = Mg.c_merge_clos_new 1 0 in
  let maxmem = if rbool c.st then 1 else rrange c.st 50 400 in
  let s = So.c_sorter_init maxmem c.spill mc 0n in
  let sid = create c (KSorter (false, N0)) in
  for i = 0 to rrange c.st 3 60 do ignore (So.c_sorter_add s (Printf.sprintf "k%03d" (rint c.st 40)) (Printf.sprintf "a%d" i)) done;
  update c sid (KSorter (false, n_of_int (So.c_mkstemp_count ())));
  observe c "sorter_adds" ~threads_exact:true;
  let path = Filename.concat c.dir "swr.mtbl" in
  (try Sys.remove path with _ -> ());
  let fd = Wr.c_open_rw path true in
  let w = Wr.c_writer_init_fd fd (0, false, 0, false, 0, false, 0, 0n) in
  Wr.c_close fd;
  let wid = create c (KWriter false) in
  (* the blocker sits above the first key, or in the middle of the sorter's range *)
  ignore (Wr.c_writer_add w (if rbool c.st then "zzzz" else "k020") "blocker");
  ignore (So.c_sorter_write s w);
  update c sid (KSorter (false, n_of_int (So.c_mkstemp_count ())));
  observe c "sorter_write(refused)" ~threads_exact:true;
  Wr.c_writer_destroy w; destroy c wid;
  So.c_sorter_destroy s; destroy c sid; Mg.c_merge_clos_free mc;
  observe c "sorter_destroy" ~threads_exact:true

(* the operational model's view of a fileset scenario: the entries of the shared my_fileset in the MODEL's order
   (kept entries first, then the added ones), and the reload description for a rewritten setfile *)
let fs_reload_plan (ents : string list ref) (now_lines : string list) : rl =
  let keep = List.map (fun nm -> List.mem nm now_lines) !ents in
  let added = List.filter (fun nm -> not (List.mem nm !ents)) now_lines in
  ents := List.filter (fun nm -> List.mem nm now_lines) !ents @ added;
  { rl_due = true; rl_changed = true; rl_keep = keep; rl_added = List.map (fun _ -> (true, RdOk)) added }
let fs_subs n = List.init n (fun _ -> Ioc (true, true, []))

let sc_fileset c =
  let mid = n_of_int in
  c.rops_on <- true;
  let names = List.init (rrange c.st 1 4) (fun i -> Printf.sprintf "t%02d.mtbl" i) in
  List.iter (fun nm -> ignore (mk_table c nm (rrange c.st 1 30))) names;
  let setfile = Filename.concat c.dir "set.fileset" in
  let write_set l = let oc = open_out setfile in List.iter (fun nm -> output_string oc (nm ^ "\n")) l; close_out oc in
  write_set names;
  let mc = Mg.c_merge_clos_new 1 0 in
  let f = Fs.c_fileset_init setfile 0 mc 0 0 in
  let fid = create c (KFileset N0) in
  let ents = ref [] in
  rop c (RFilesetInit (mid 6000, mid 6050));
  let it = Rd.c_source_iter (Fs.c_fileset_source f) in
  let plan = fs_reload_plan ents names in
  rop c (RFilesetIter (mid 6100, mid 6000, QIter, plan, Ioc (it <> 0n, true, fs_subs (List.length !ents))));
  update c fid (KFileset (n_of_int (List.length names)));
  observe c "fileset_iter(first load)" ~threads_exact:true;
  for _ = 1 to rint c.st 10 do ignore (Rd.c_iter_next it); rop c (RIterNext (mid 6100)) done;
  let nfilt = rint c.st 3 in          (* filename filter of the dup: none / even / odd file numbers (the model has no filters:
                                        they change only how many readers the dup's merger holds, i.e. heap, not descriptors or mappings) *)
  let d = Fs.c_fileset_dup f 0 mc nfilt 0 in
  rop c (RFilesetDup (mid 6001, mid 6000));
  let it2 = Rd.c_source_get (Fs.c_fileset_source d) "k0001" in
  rop c (RFilesetIter (mid 6101, mid 6001, QGet, rl_none, Ioc (it2 <> 0n, true, fs_subs (List.length !ents))));
  let it3 = Rd.c_source_get (Fs.c_fileset_source d) "absent" in
  rop c (RFilesetIter (mid 6102, mid 6001, QGet, rl_none, Ioc (it3 <> 0n, true, fs_subs (List.length !ents))));
  observe c "dup+iterators" ~threads_exact:true;
  Rd.c_iter_destroy it; rop c (RFilesetIterDestroy (mid 6100, rl_none));
  if it2 <> 0n then Rd.c_iter_destroy it2; rop c (RFilesetIterDestroy (mid 6101, rl_none));
  if it3 <> 0n then Rd.c_iter_destroy it3; rop c (RFilesetIterDestroy (mid 6102, rl_none));
  observe c "iterators destroyed" ~threads_exact:true;
  (* drop a file from the setfile and reload *)
  let names' = List.tl names in
  write_set names'; Unix.utimes setfile 5000.0 5000.0;
  Fs.c_advance_clock 5 0; Fs.c_fileset_reload_now f;
  rop c (RFilesetReload (mid 6000, true, fs_reload_plan ents names'));
  update c fid (KFileset (n_of_int (List.length names')));
  observe c "reload_now(after dropping a file)" ~threads_exact:true;
  if rbool c.st then (Fs.c_fileset_destroy d; rop c (RFilesetDestroy (mid 6001)); observe c "dup destroyed first" ~threads_exact:true;
                      Fs.c_fileset_destroy f; rop c (RFilesetDestroy (mid 6000)))
  else (Fs.c_fileset_destroy f; rop c (RFilesetDestroy (mid 6000)); observe c "original destroyed first" ~threads_exact:true;
        Fs.c_fileset_destroy d; rop c (RFilesetDestroy (mid 6001)));
  destroy c fid; Mg.c_merge_clos_free mc;
  observe c "fileset_destroy" ~threads_exact:true

(* a table that stays loaded across a reload of a changed setfile and is dropped by a later one *)
let sc_fileset_long c =
  let mid = n_of_int in
  c.rops_on <- true;
  let names = List.init (rrange c.st 3 5) (fun i -> Printf.sprintf "u%02d.mtbl" i) in
  List.iter (fun nm -> ignore (mk_table c nm (rrange c.st 1 30))) names;
  let setfile = Filename.concat c.dir "setl.fileset" in
  let stamp = ref 6000.0 in
  let write_set l = let oc = open_out setfile in List.iter (fun nm -> output_string oc (nm ^ "\n")) l; close_out oc;
    stamp := !stamp +. 10.0; Unix.utimes setfile !stamp !stamp in
  let mc = Mg.c_merge_clos_new 1 0 in
  let first = [ List.nth names 0; List.nth names 1 ] in
  write_set first;
  let f = Fs.c_fileset_init setfile 0 mc 0 0 in
  let fid = create c (KFileset N0) in
  let ents = ref [] in
  rop c (RFilesetInit (mid 6200, mid 6250));
  let nit = ref 6300 in
  (* an iterator on handle h (model id hm), a few entries, destroyed; [plan]: what the reload at its creation finds *)
  let use_on h hm plan =
    let it = Rd.c_source_iter (Fs.c_fileset_source h) in
    incr nit;
    rop c (RFilesetIter (mid !nit, mid hm, QIter, plan, Ioc (it <> 0n, true, fs_subs (List.length !ents))));
    for _ = 1 to rint c.st 6 do ignore (Rd.c_iter_next it); rop c (RIterNext (mid !nit)) done;
    Rd.c_iter_destroy it; rop c (RFilesetIterDestroy (mid !nit, rl_none)) in
  use_on f 6200 (fs_reload_plan ents first); update c fid (KFileset (n_of_int 2));
  observe c "fileset(first load)" ~threads_exact:true;
  let d = if rbool c.st then Some (Fs.c_fileset_dup f 0 mc 0 0) else None in
  if d <> None then rop c (RFilesetDup (mid 6201, mid 6200));
  (* grow: the first two survive *)
  let reload_now lines = write_set lines; Fs.c_advance_clock 5 0; Fs.c_fileset_reload_now f;
    rop c (RFilesetReload (mid 6200, true, fs_reload_plan ents lines)) in
  reload_now names; use_on f 6200 rl_none;
  update c fid (KFileset (n_of_int (List.length names)));
  observe c "reload_now(setfile grew)" ~threads_exact:true;
  (* shrink: one of the long-lived tables is dropped *)
  let kept = List.filter (fun nm -> nm <> List.nth names 1) names in
  reload_now kept; use_on f 6200 rl_none;
  (match d with Some dd -> use_on dd 6201 rl_none | None -> ());
  update c fid (KFileset (n_of_int (List.length kept)));
  observe c "reload_now(long-lived table dropped)" ~threads_exact:true;
  reload_now [ List.nth names 2 ]; use_on f 6200 rl_none;
  update c fid (KFileset (n_of_int 1));
  observe c "reload_now(all but one dropped)" ~threads_exact:true;
  (match d with Some dd -> Fs.c_fileset_destroy dd; rop c (RFilesetDestroy (mid 6201)) | None -> ());
  Fs.c_fileset_destroy f; rop c (RFilesetDestroy (mid 6200)); destroy c fid; Mg.c_merge_clos_free mc;
  observe c "fileset_destroy" ~threads_exact:true

(* writers created through a path: fresh path (one descriptor while alive), an existing path (refused: nothing
   stays open), a reader of a missing path (NULL) *)
let sc_writer_path c =
  let path = Filename.concat c.dir "wp.mtbl" in
  (try Sys.remove path with _ -> ());
  let w = Wr.c_writer_init path in
  let wid = create c (KWriter false) in
  observe c "writer_init(path)" ~threads_exact:true;
  for i = 0 to rrange c.st 0 300 do ignore (Wr.c_writer_add w (Printf.sprintf "k%04d" (if rint c.st 6 = 0 then 1 else i)) (String.make (rint c.st 100) 'v')) done;
  let w2 = Wr.c_writer_init path in                     (* the path exists now: refused *)
  if w2 <> 0n then Wr.c_writer_destroy w2;
  observe c "writer_init(existing path, refused)" ~threads_exact:true;
  Wr.c_writer_destroy w; destroy c wid;
  observe c "writer_destroy" ~threads_exact:true;
  let r0 = Rd.c_reader_init (Filename.concat c.dir "no-such-file.mtbl") false false in
  if r0 <> 0n then Rd.c_reader_destroy r0;
  observe c "reader_init(missing path)" ~threads_exact:true;
  (* read it back and copy it through mtbl_source_write into a second path-based writer *)
  let r = Rd.c_reader_init path (rbool c.st) false in
  let rid = create c (KReader true) in
  let path2 = Filename.concat c.dir "wp2.mtbl" in
  (try Sys.remove path2 with _ -> ());
  let wc = Wr.c_writer_init path2 in
  let wcid = create c (KWriter false) in
  if rbool c.st then ignore (Wr.c_writer_add wc "k0100" "blocker");     (* the copy is refused part-way *)
  ignore (c_source_write (Rd.c_reader_source r) wc);
  observe c "source_write(reader -> writer)" ~threads_exact:true;
  Wr.c_writer_destroy wc; destroy c wcid;
  Rd.c_reader_destroy r; destroy c rid;
  observe c "destroy" ~threads_exact:true

(* a fileset used through every iterator kind, seeks, and mtbl_fileset_partition *)
let sc_fileset_kinds c =
  let names = List.init (rrange c.st 2 5) (fun i -> Printf.sprintf "p%02d.mtbl" i) in
  List.iter (fun nm -> ignore (mk_table c nm (rrange c.st 1 40))) names;
  let setfile = Filename.concat c.dir "setk.fileset" in
  let oc = open_out setfile in List.iter (fun nm -> output_string oc (nm ^ "\n")) names; close_out oc;
  let mc = Mg.c_merge_clos_new 1 0 in
  let f = Fs.c_fileset_init setfile 0 mc 0 0 in
  let fid = create c (KFileset N0) in
  let src = Fs.c_fileset_source f in
  let its = [ Rd.c_source_get_prefix src "k00"; Rd.c_source_get_range src "k0001" "k0020"; Rd.c_source_iter src; Rd.c_source_get_prefix src "zz" ] in
  update c fid (KFileset (n_of_int (List.length names)));
  observe c "fileset iterators (prefix, range, iter)" ~threads_exact:true;
  List.iter (fun it -> if it <> 0n then begin
      for _ = 1 to rint c.st 8 do ignore (Rd.c_iter_next it) done;
      ignore (Rd.c_iter_seek it (Printf.sprintf "k%04d" (rint c.st 30)));
      ignore (Rd.c_iter_next it) end) its;
  let (m1, m2) = c_fileset_partition f (1 + rint c.st 2) in
  let i1 = Rd.c_source_iter (Mg.c_merger_source m1) and i2 = Rd.c_source_get_prefix (Mg.c_merger_source m2) "k000" in
  observe c "fileset_partition + iterators" ~threads_exact:true;
  List.iter (fun it -> if it <> 0n then begin ignore (Rd.c_iter_next it); Rd.c_iter_destroy it end) [ i1; i2 ];
  Mg.c_merger_destroy m1; Mg.c_merger_destroy m2;
  List.iter (fun it -> if it <> 0n then Rd.c_iter_destroy it) its;
  observe c "iterators and partition mergers destroyed" ~threads_exact:true;
  Fs.c_fileset_destroy f; destroy c fid; Mg.c_merge_clos_free mc;
  observe c "fileset_destroy" ~threads_exact:true

(* sorter and merger iterators that are sought (forwards, backwards, past the end) and abandoned *)
let sc_seeks c =
  let mc = Mg.c_merge_clos_new 1 0 in
  let s = So.c_sorter_init (if rbool c.st then 1 else 300) c.spill mc 0n in
  let sid = create c (KSorter (false, N0)) in
  c.rops_on <- true;
  let mid = n_of_int in
  rop c (RSorterInit (mid sid, None));
  for i = 0 to rrange c.st 5 80 do
    let before = So.c_mkstemp_count () in
    ignore (So.c_sorter_add s (Printf.sprintf "k%03d" (rint c.st 50)) (Printf.sprintf "a%d" i));
    (* a spill is visible as a new mkstemp call *)
    rop c (RSorterAdd (mid sid, (if So.c_mkstemp_count () > before then Some [ CWrite ] else None), false))
  done;
  let before = So.c_mkstemp_count () in
  let it = So.c_sorter_iter s in
  let nchunks = So.c_mkstemp_count () in
  rop c (RSorterIter (mid 4100, mid sid, (if nchunks > before then [ CWrite ] else []), Ioc (it <> 0n, true, List.init nchunks (fun _ -> Ioc (true, true, []))), false));
  update c sid (KSorter (false, n_of_int nchunks));
  observe c "sorter_iter" ~threads_exact:true;
  List.iter (fun k -> ignore (Rd.c_iter_seek it k); rop c (RIterSeek (mid 4100)); for _ = 1 to rint c.st 4 do ignore (Rd.c_iter_next it); rop c (RIterNext (mid 4100)) done) [ "k030"; "k010"; "zzz"; ""; "k049" ];
  observe c "sorter iterator sought 5 times" ~threads_exact:true;
  if it <> 0n then (Rd.c_iter_destroy it; rop c (RIterDestroy (mid 4100)));
  So.c_sorter_destroy s; destroy c sid; Mg.c_merge_clos_free mc; rop c (RSorterDestroy (mid sid));
  observe c "sorter_destroy" ~threads_exact:true

(* a sorter configured with a pool OBJECT of zero threads (it still starts its result-handler thread), destroyed at
   once / after adds / after iteration: the handler thread must be gone after mtbl_sorter_destroy *)
let sc_sorter_zero_pool c =
  let pool = Wr.c_pool_init 0 in
  let pid = create c (KPool N0) in
  let mc = Mg.c_merge_clos_new 1 0 in
  let s = So.c_sorter_init (if rbool c.st then 1 else 100000000) c.spill mc pool in
  let sid = create c (KSorter (true, N0)) in
  observe c "sorter_init(pool of zero threads)" ~threads_exact:true;
  let mode = rint c.st 3 in
  if mode >= 1 then for i = 0 to rrange c.st 1 30 do ignore (So.c_sorter_add s (Printf.sprintf "k%02d" (rint c.st 9)) (Printf.sprintf "v%d" i)) done;
  if mode = 2 then (let it = So.c_sorter_iter s in for _ = 1 to rint c.st 12 do ignore (Rd.c_iter_next it) done; if it <> 0n then Rd.c_iter_destroy it);
  So.c_sorter_destroy s; destroy c sid; Mg.c_merge_clos_free mc;
  observe c "sorter_destroy" ~threads_exact:true;
  Wr.c_pool_destroy pool; destroy c pid;
  observe c "pool_destroy" ~threads_exact:true

(* mergers whose merge function returns a value of length 0 for most keys (the concatenation of empty values), drained
   completely: every buffer the callback returns must be released *)
let sc_merger_empty_values c =
  let n = rrange c.st 2 4 in
  let rs = List.init n (fun i -> let p = mk_table_empty_values c (Printf.sprintf "me%d.mtbl" i) (rrange c.st 40 120) in
                         let r = Rd.c_reader_init p false false in
                         let id = create c (KReader true) in (r, id)) in
  let mc = Mg.c_merge_clos_new 2 0 in
  let m = Mg.c_merger_init mc 0 in
  List.iter (fun (r, _) -> Mg.c_merger_add_source m (Rd.c_reader_source r)) rs;
  let it = Rd.c_source_iter (Mg.c_merger_source m) in
  let continue = ref true in
  while !continue do (match Rd.c_iter_next it with Some _ -> () | None -> continue := false) done;
  observe c "merger drained (empty merged values)" ~threads_exact:true;
  Rd.c_iter_destroy it; Mg.c_merger_destroy m; Mg.c_merge_clos_free mc;
  List.iter (fun (r, id) -> Rd.c_reader_destroy r; destroy c id) rs;
  observe c "merger_destroy" ~threads_exact:true

(* sorters whose merge function returns one of its operands (the larger / the smaller by (length, bytes)): many equal
   keys inside one chunk with values of different lengths, in both orders; every buffer must be released *)
let sc_sorter_operand_merge c =
  let kind = if rbool c.st then 3 else 4 in
  let mc = Mg.c_merge_clos_new kind 0 in
  let s = So.c_sorter_init (if rbool c.st then 100000000 else rrange c.st 300 3000) c.spill mc 0n in
  let sid = create c (KSorter (false, N0)) in
  for i = 0 to rrange c.st 30 120 do
    ignore (So.c_sorter_add s (Printf.sprintf "k%d" (rint c.st 5)) (String.make (if i mod 2 = 0 then rrange c.st 20 40 else rrange c.st 0 10) (Char.chr (97 + i mod 26))))
  done;
  let it = So.c_sorter_iter s in
  update c sid (KSorter (false, n_of_int (So.c_mkstemp_count ())));
  let continue = ref true in
  if it <> 0n then (while !continue do (match Rd.c_iter_next it with Some _ -> () | None -> continue := false) done; Rd.c_iter_destroy it);
  So.c_sorter_destroy s; destroy c sid; Mg.c_merge_clos_free mc;
  observe c "sorter_destroy" ~threads_exact:true

(* a process that has closed its standard input (a daemon): the writer's private dup() of the output descriptor is
   descriptor 0, and is released by mtbl_writer_destroy like any other.  Observed at the end only (descriptor 0 is put
   back first, so the count is comparable with the start) *)
let sc_writer_fd0 c =
  (* only when this process has a descriptor 0 to close (a harness started without standard input has none) *)
  if (try ignore (Unix.fstat Unix.stdin); false with _ -> true) then observe c "no standard input: scenario skipped" ~threads_exact:true else
  let path = Filename.concat c.dir "w0.mtbl" in
  (try Sys.remove path with _ -> ());
  let fd = Wr.c_open_rw path true in
  Wr.c_close 0;
  let w = Wr.c_writer_init_fd fd (rint c.st 6, false, 0, true, 1024, false, 0, 0n) in
  Wr.c_close fd;
  for i = 0 to rrange c.st 0 60 do ignore (Wr.c_writer_add w (Printf.sprintf "k%04d" i) (String.make (rint c.st 300) 'v')) done;
  Wr.c_writer_destroy w;
  (* descriptor 0 back: the lowest free descriptor is 0 exactly when the writer released its own *)
  let d = Unix.openfile "/dev/null" [ Unix.O_RDONLY ] 0 in
  ignore d;
  observe c "writer_destroy(stdin closed)" ~threads_exact:true;
  (* a reader of that file as well *)
  let r = Rd.c_reader_init path false false in
  if r <> 0n then Rd.c_reader_destroy r;
  observe c "reader_destroy" ~threads_exact:true

let scenarios = [| ("writer_fd0", sc_writer_fd0); ("writer", sc_writer); ("reader", sc_reader); ("merger", sc_merger); ("sorter", sc_sorter); ("fileset", sc_fileset); ("sorter_final_flush_fails", sc_sorter_final_flush_fails); ("sorter_write_refused", sc_sorter_write_refused); ("fileset_long", sc_fileset_long); ("writer_path", sc_writer_path); ("fileset_kinds", sc_fileset_kinds); ("seeks", sc_seeks); ("sorter_zero_pool", sc_sorter_zero_pool); ("merger_empty_values", sc_merger_empty_values); ("sorter_operand_merge", sc_sorter_operand_merge) |]

let run_scenario (name : string) (f : ctx -> unit) ~seed ~index : child_end =
  in_child (fun () ->
    let dir = Filename.concat (Wr.tmpdir ()) (Printf.sprintf "lk_%d" (Unix.getpid ())) in
    let spill = Filename.concat dir "spill" in
    ignore (Sys.command (Printf.sprintf "rm -rf %s && mkdir -p %s" (Filename.quote dir) (Filename.quote spill)));
    let heaps = ref [] in
    let logs = ref [] in
    for round = 1 to 4 do
      let c = { dir; spill; live = []; next = 0; log = []; base_fds = fd_count (); base_threads = thread_count ();
                st = case_rng ~seed ~engine ~index; pool_threads_max = 0; rops = []; rops_on = false } in
      So.c_mkstemp_reset ();
      f c;
      if round = 1 then logs := List.rev c.log;
      Gc.full_major ();
      heaps := c_heap_in_use () :: !heaps
    done;
    ignore (Sys.command (Printf.sprintf "rm -rf %s" (Filename.quote dir)));
    "DONE" ^ Marshal.to_string (!logs, List.rev !heaps) [])

let run ~tier ~seed ~only acc =
  let idx = ref 0 in
  let want () = cur_index := !idx; (match only with None -> true | Some i -> i = !idx) in
  let n = if tier = "thorough" then 1500 else 165 in
  for i = 0 to n - 1 do
    if want () then begin
      let (name, f) = scenarios.(i mod Array.length scenarios) in
      let case = lazy (JO [ "scenario", JS name; "seed", JI seed; "index", JI !idx ]) in
      record acc ~key:(Printf.sprintf "%s/%d/%d" name seed !idx) ~nontrivial:true ~klass:name case;
      (match run_scenario name f ~seed ~index:!idx with
       | Exited (_, s) when String.length s > 4 && String.sub s 0 4 = "DONE" ->
         let (log, heaps) : obs list * int64 list = Marshal.from_string s 4 in
         List.iter (fun o ->
           bump acc "observations";
           let bad what got exp =
             fail acc ~kind:"model_mismatch" ~what:(Printf.sprintf "[C18] %s after step '%s'" what o.step) (JO [ "case", Lazy.force case; "observed", JI got; "ledger", JI exp ]) in
           if o.fds <> o.efds then bad "open descriptors" o.fds o.efds;
           if o.maps <> o.emaps then bad "file mappings" o.maps o.emaps;
           if o.tmp <> 0 then bad "files in the sorter temp directory" o.tmp 0;
           (match o.ethreads with Some t -> if o.threads <> t then bad "threads" o.threads t | None -> ());
           (match o.op_model with
            | Some (mf, mm, mt, mh) ->
              bump acc "operational_model_observations";
              let bad2 what got exp =
                fail acc ~kind:"model_mismatch" ~what:(Printf.sprintf "[C18] %s after step '%s' (operational resource model, T18_all_destroyed_clean)" what o.step)
                  (JO [ "case", Lazy.force case; "observed", JI got; "model", JI exp ]) in
              if o.fds <> mf then bad2 "open descriptors" o.fds mf;
              if o.maps <> mm then bad2 "file mappings" o.maps mm;
              if o.tmp <> mt then bad2 "temporary files" o.tmp mt;
              (match o.ethreads with Some _ -> if o.threads <> mh then bad2 "handler threads" o.threads mh | None -> ())
            | None -> ())) log;
         (match List.rev log with
          | last :: _ ->
            if last.fds <> 0 || last.maps <> 0 || last.tmp <> 0 || last.threads <> 0 then
              fail acc ~kind:"spec_violation" ~what:"[C18] resources remain after every object has been destroyed"
                (JO [ "case", Lazy.force case; "descriptors", JI last.fds; "mappings", JI last.maps; "temp_files", JI last.tmp; "threads", JI last.threads ])
          | [] -> ());
         (match heaps with
          | [ _; h2; h3; h4 ] ->
            let d1 = Int64.sub h3 h2 and d2 = Int64.sub h4 h3 in
            if Int64.compare d1 0L > 0 && Int64.compare d2 0L > 0 then
              fail acc ~kind:"spec_violation" ~what:"[C18] heap in use grows with every repetition of a scenario that destroys all its objects"
                (JO [ "case", Lazy.force case; "growth_run3", JS (Int64.to_string d1); "growth_run4", JS (Int64.to_string d2) ])
          | _ -> ())
       | Signaled (sg, _) ->
         fail acc ~kind:"spec_violation" ~what:(Printf.sprintf "[C18] the scenario stopped the process (signal %d)" sg) (Lazy.force case)
       | Exited (_, s) -> fail acc ~kind:"model_mismatch" ~what:"[C18] harness error" (JO [ "case", Lazy.force case; "msg", JS s ]))
    end;
    incr idx
  done
