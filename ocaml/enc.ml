(* An independent MTBL encoder used as a generator for C11 (and for small-scope
   enumeration in C02/C03): builds format v1 or v2 files from the format
   description with arbitrary LEGAL layout choices - block boundaries, restart
   positions, amount of prefix sharing, separator keys, compression, leading
   foreign bytes.  Written natively in OCaml; every file it produces is first
   judged by the extracted independent decoder (spec/Parse.v) before use. *)
open Common

let crc32c (s : string) : int =
  let crc = ref 0xFFFFFFFF in
  String.iter (fun ch ->
    crc := !crc lxor (Char.code ch);
    for _ = 1 to 8 do
      if !crc land 1 = 1 then crc := (!crc lsr 1) lxor 0x82F63B78 else crc := !crc lsr 1
    done) s;
  (!crc lxor 0xFFFFFFFF) land 0xFFFFFFFF

let varint (v : int) : string =
  let b = Buffer.create 5 in
  let rec go v = if v < 128 then Buffer.add_char b (Char.chr v)
    else (Buffer.add_char b (Char.chr (128 lor (v land 127))); go (v lsr 7)) in
  go v; Buffer.contents b
let le n (v : int) = String.init n (fun i -> Char.chr ((v lsr (8 * i)) land 255))

let lcp a b =
  let n = min (String.length a) (String.length b) in
  let i = ref 0 in
  while !i < n && a.[!i] = b.[!i] do incr i done; !i

type layout = {
  version : int;               (* 1 or 2 (file format) *)
  comp : int;
  cuts : int list;             (* sizes of the successive data blocks (entries per block) *)
  restart_every : int;         (* 0 = random restart positions *)
  max_share : bool;            (* false: sometimes share less than the common prefix *)
  prefix : string;
  sep_choice : int;            (* 0 = last key of block, 1 = a legal shortened key when one exists *)
}

let encode_block st ~(restart_every : int) ~(max_share : bool) (es : (string * string) list) : string =
  let b = Buffer.create 256 in
  let restarts = ref [] in
  let prev = ref "" in
  List.iteri (fun i (k, v) ->
    let is_restart = i = 0 || (if restart_every > 0 then i mod restart_every = 0 else rint st 3 = 0) in
    let shared =
      if is_restart then 0
      else (let l = lcp !prev k in if max_share || l = 0 then l else (if rint st 3 = 0 then rint st (l + 1) else l)) in
    if is_restart then restarts := Buffer.length b :: !restarts;
    Buffer.add_string b (varint shared);
    Buffer.add_string b (varint (String.length k - shared));
    Buffer.add_string b (varint (String.length v));
    Buffer.add_string b (String.sub k shared (String.length k - shared));
    Buffer.add_string b v;
    prev := k) es;
  let rs = if es = [] then [ 0 ] else List.rev !restarts in
  List.iter (fun r -> Buffer.add_string b (le 4 r)) rs;
  Buffer.add_string b (le 4 (List.length rs));
  Buffer.contents b

let frame ~version (stored : string) : string =
  (if version = 1 then le 4 (String.length stored) else varint (String.length stored))
  ^ le 4 (crc32c stored) ^ stored

(* a key k with last <= k < next, different from last when possible *)
let separator st (last : string) (next : string) : string =
  (* try the prefix of next of length lcp+1 with its last byte decremented ... keep it simple and safe:
     candidates: last itself; last ^ "\x00" if < next; common prefix ^ (byte between) *)
  let cands = ref [ last ] in
  let c1 = last ^ "\x00" in
  if compare c1 next < 0 then cands := c1 :: !cands;
  let l = lcp last next in
  if l < String.length last && l < String.length next then begin
    let a = Char.code last.[l] and b = Char.code next.[l] in
    if a + 1 < b then cands := (String.sub last 0 l ^ String.make 1 (Char.chr (a + 1))) :: !cands;
    (* next's prefix up to l+1 is > last and <= next; legal only if strictly below next *)
    let c3 = String.sub next 0 (l + 1) in
    if compare c3 next < 0 && compare last c3 <= 0 then cands := c3 :: !cands
  end;
  let arr = Array.of_list !cands in
  arr.(rint st (Array.length arr))

let rec split_by (cuts : int list) (es : 'a list) : 'a list list =
  match cuts, es with
  | _, [] -> []
  | [], _ -> [ es ]
  | c :: tl, _ ->
    let c = max 1 c in
    let rec take n l acc = if n = 0 then (List.rev acc, l) else (match l with [] -> (List.rev acc, []) | x :: r -> take (n - 1) r (x :: acc)) in
    let (h, r) = take c es [] in
    h :: split_by tl r

let build_file st ~(compress : int -> string -> string option) (lay : layout) (es : (string * string) list) : string option =
  let blocks = split_by lay.cuts es in
  let out = Buffer.create 4096 in
  Buffer.add_string out lay.prefix;
  let index = ref [] in
  let ok = ref true in
  let nblocks = List.length blocks in
  let bytes_data = ref 0 in
  List.iteri (fun i blk ->
    let raw = encode_block st ~restart_every:lay.restart_every ~max_share:lay.max_share blk in
    let stored = if lay.comp = 0 then Some raw else compress lay.comp raw in
    match stored with
    | None -> ok := false
    | Some s ->
      let off = Buffer.length out in
      let fr = frame ~version:lay.version s in
      Buffer.add_string out fr;
      bytes_data := !bytes_data + String.length fr;
      let last = fst (List.nth blk (List.length blk - 1)) in
      let key = if i + 1 < nblocks && lay.sep_choice = 1
        then separator st last (fst (List.hd (List.nth blocks (i + 1)))) else last in
      index := (key, varint off) :: !index) blocks;
  if not !ok then None else begin
    let ibo = Buffer.length out in
    let iraw = encode_block st ~restart_every:lay.restart_every ~max_share:lay.max_share (List.rev !index) in
    let ifr = frame ~version:lay.version iraw in
    Buffer.add_string out ifr;
    let fields = [ ibo; 8192; lay.comp; List.length es; nblocks; !bytes_data; String.length ifr;
                   List.fold_left (fun a (k, _) -> a + String.length k) 0 es;
                   List.fold_left (fun a (_, v) -> a + String.length v) 0 es ] in
    List.iter (fun f -> Buffer.add_string out (le 8 f)) fields;
    Buffer.add_string out (String.make (512 - 72 - 4) '\000');
    Buffer.add_string out (le 4 (if lay.version = 1 then 0x77846676 else 0x4D54424C));
    Some (Buffer.contents out)
  end
