(* C17: CRC-32C.  my_crc32c_slicing, my_crc32c_sse42 (when the CPU has SSE4.2) and
   mtbl_crc32c (the dispatcher) against the extracted models crc_slicing / crc_sse42
   and against an independent native bit-serial CRC-32C. *)
open Common
open Mtbl_model
type string = Stdlib.String.t

external c_crc : int -> string -> int -> int64 = "vp_crc_impl"
external c_sse42_supported : unit -> bool = "vp_sse42_supported"
external c_crc_null : int -> int64 = "vp_crc_null"
external c_crc_threads : int -> int -> int = "vp_crc_threads"
external c_crc_inplace : string -> string -> int64 * int64 = "vp_crc_inplace"

let engine = "c17"
let rule = "buffers: every length 0..L at every alignment 0..7 (L = 300 quick / 1100 thorough) with position-dependent content, every byte value at every position modulo 8 (reaches all 8x256 table entries and every tail case of the SSE4.2 switch), constant buffers, random buffers up to 64 KiB (quick) / 1 MiB (thorough). Each through mtbl_crc32c, my_crc32c_slicing and my_crc32c_sse42. Non-trivial: length >= 1; distinct by (content, alignment)."

let ref_crc s = Int64.of_int (Enc.crc32c s)

let check acc ~klass ~sse (s : string) (align : int) ~with_model =
  let case = lazy (JO [ "len", JI (String.length s); "align", JI align; "head", JS (hex (String.sub s 0 (min 12 (String.length s)))) ]) in
  record acc ~key:(Digest.string s ^ string_of_int align) ~nontrivial:(String.length s >= 1) ~klass case;
  let r = ref_crc s in
  let impls = [ (0, "mtbl_crc32c"); (1, "my_crc32c_slicing") ] @ (if sse then [ (2, "my_crc32c_sse42") ] else []) in
  List.iter (fun (w, name) ->
    let v = c_crc w s align in
    if v <> r then
      fail acc ~kind:"spec_violation" ~what:(Printf.sprintf "[C17,C12] %s is not the standard CRC-32C" name)
        (JO [ "case", Lazy.force case; "got", JS (Printf.sprintf "%08Lx" v); "expected", JS (Printf.sprintf "%08Lx" r); "hex", JS (if String.length s <= 64 then hex s else "") ]);
    if with_model then begin
      let l = nl_of_string s in
      let m = (if w = 2 then crc_sse42 l else if w = 1 then crc_slicing (n_of_int (align mod 4)) l
               else if sse then crc_sse42 l else crc_slicing (n_of_int (align mod 4)) l) in
      if u64_of_n m <> v then
        fail acc ~kind:"model_mismatch" ~what:(Printf.sprintf "[C17,C12] %s vs its model" name)
          (JO [ "case", Lazy.force case; "impl", JS (Printf.sprintf "%08Lx" v); "model", JS (Printf.sprintf "%08Lx" (u64_of_n m)) ])
    end) impls

let run ~tier ~seed ~only acc =
  let idx = ref 0 in
  let want () = cur_index := !idx; (match only with None -> true | Some i -> i = !idx) in
  let sse = c_sse42_supported () in
  acc.notes <- ("sse42_supported_on_this_host", JB sse) :: acc.notes;
  let maxlen = if tier = "thorough" then 1100 else 300 in
  (* every length x every alignment *)
  for n = 0 to maxlen do
    for a = 0 to 7 do
      if want () then begin
        let s = String.init n (fun i -> Char.chr ((i * 131 + n * 7 + 13) land 255)) in
        check acc ~klass:"every_length_alignment" ~sse s a ~with_model:(n <= 64 || (n mod 37 = 0))
      end;
      incr idx
    done
  done;
  (* every byte value at every position mod 8, in buffers of 8..23 bytes *)
  for pos = 0 to 7 do
    for v = 0 to 255 do
      if want () then begin
        let n = 16 + pos in
        let s = String.init n (fun i -> if i = pos || i = 8 + pos then Char.chr v else Char.chr (i land 255)) in
        check acc ~klass:"every_byte_value_every_lane" ~sse s (v land 7) ~with_model:(v mod 16 = 0)
      end;
      incr idx
    done
  done;
  List.iter (fun (klass, s) -> if want () then check acc ~klass ~sse s 0 ~with_model:true; incr idx)
    [ ("vectors", "123456789"); ("vectors", String.make 32 '\000'); ("vectors", String.make 32 '\255');
      ("vectors", String.init 32 Char.chr); ("vectors", String.init 32 (fun i -> Char.chr (31 - i))); ("vectors", "") ];
  (* the empty buffer given as (NULL, 0): CRC-32C of no bytes is 0 for the dispatcher and both implementations *)
  List.iter (fun (w, name) ->
    if want () && (w <> 2 || sse) then begin
      let case = lazy (JO [ "op", JS (name ^ "(NULL, 0)") ]) in
      record acc ~key:("null" ^ name) ~nontrivial:true ~klass:"null_empty_buffer" case;
      let v = c_crc_null w in
      if v <> 0L then
        fail acc ~kind:"spec_violation" ~what:(Printf.sprintf "[C17,C12] %s of the empty buffer (NULL, 0) is not 0" name) (JO [ "case", Lazy.force case; "got", JS (Printf.sprintf "%08Lx" v) ])
    end;
    incr idx) [ (0, "mtbl_crc32c"); (1, "my_crc32c_slicing"); (2, "my_crc32c_sse42") ];
  (* several threads at once, each on a private buffer: a checksum is a function of the caller's bytes (writer pools call
     mtbl_crc32c from their workers); state shared between calls - a static scratch buffer - shows here *)
  List.iter (fun nthr ->
    if want () then begin
      let iters = if tier = "thorough" then 3000000 else 400000 in
      let case = lazy (JO [ "op", JS "mtbl_crc32c from several threads, private buffers"; "threads", JI nthr; "calls_per_thread", JI iters ]) in
      record acc ~key:(Printf.sprintf "threads%d" nthr) ~nontrivial:true ~klass:"concurrent_callers" case;
      let bad = c_crc_threads nthr iters in
      if bad <> 0 then
        fail acc ~kind:"spec_violation" ~what:"[C17,C12] mtbl_crc32c called from several threads returned a value that is not the CRC-32C of the caller's buffer"
          (JO [ "case", Lazy.force case; "wrong_results", JI bad ])
    end;
    incr idx) [ 2; 4; 8 ];
  (* the same buffer checksummed twice with its content replaced in place: the value depends on the bytes, not on the address *)
  List.iter (fun n ->
    if want () then begin
      let s1 = String.init n (fun i -> Char.chr ((i * 17 + 1) land 255)) and s2 = String.init n (fun i -> Char.chr ((i * 29 + 200) land 255)) in
      let case = lazy (JO [ "op", JS "mtbl_crc32c twice on one buffer rewritten in place"; "len", JI n ]) in
      record acc ~key:(Printf.sprintf "inplace%d" n) ~nontrivial:(n >= 1) ~klass:"rewritten_in_place" case;
      let (a, b) = c_crc_inplace s1 s2 in
      if a <> ref_crc s1 || b <> ref_crc s2 then
        fail acc ~kind:"spec_violation" ~what:"[C17,C12] mtbl_crc32c of a buffer that was rewritten in place is not the CRC-32C of its current content" (Lazy.force case)
    end;
    incr idx) [ 1; 4; 8; 9; 64; 1000; 4096; 70000 ];
  let nr = if tier = "thorough" then 3000 else 200 in
  for _ = 1 to nr do
    if want () then begin
      let st = case_rng ~seed ~engine ~index:!idx in
      let n = (match rint st 4 with 0 -> rrange st 0 64 | 1 -> rrange st 64 4096 | 2 -> rrange st 4096 65536
                                  | _ -> if tier = "thorough" then rrange st 65536 1048576 else rrange st 0 2000) in
      let s = if rint st 5 = 0 then String.make n (Char.chr (rint st 256)) else rbytes st n in
      check acc ~klass:"random_buffer" ~sse s (rint st 8) ~with_model:(n <= 256)
    end;
    incr idx
  done
