(* Engine "so": the sorter (C06).  Add sequences, memory limits from one entry per chunk
   to everything in memory, pools 0..8.  Implementation vs model/Sorter.v + the
   specification: each distinct key once, ascending, value = fold of exactly the values
   added (atoms compared as multisets: the merge function concatenates with a separator);
   spill files only in the configured directory (mkstemp templates), number of spills =
   the model's, add/write refused once iteration has begun. *)
open Common
open Mtbl_model
type string = Stdlib.String.t
open Gen

external c_sorter_init : int -> string -> nativeint -> nativeint -> nativeint = "vp_sorter_init"
external c_sorter_add : nativeint -> string -> string -> bool = "vp_sorter_add"
external c_sorter_iter : nativeint -> nativeint = "vp_sorter_iter"
external c_sorter_write : nativeint -> nativeint -> bool = "vp_sorter_write"
external c_sorter_destroy : nativeint -> unit = "vp_sorter_destroy"
external c_mkstemp_reset : unit -> unit = "vp_mkstemp_reset"
external c_mkstemp_count : unit -> int = "vp_mkstemp_count"
external c_mkstemp_template : int -> string = "vp_mkstemp_template"

let engine = "so"
let rule = "cases = (add sequence, max_memory, pool size, output path {iterator, mtbl_sorter_write}, merge function {concatenating, failing at call n}). Sequences: random with duplicates inside and across chunks, all-equal keys, sorted, reverse sorted, the empty key, empty input. max_memory from 1 (one entry per chunk) through boundaries of the spill rule (entry bytes + 8 per entry >= limit, +-1) to 'everything in memory'. Pools 0..8 threads. Non-trivial: >= 2 chunks or >= 1 duplicate key; distinct by (sequence, limit, pool, path)."

let atoms v = List.sort compare (String.split_on_char '|' v)
let canon (es : (string * string) list) = List.map (fun (k, v) -> (k, atoms v)) es

type out = { adds : bool list; result : (string * string) list option; late_add : bool; late_write : bool;
             nspills : int; templates : string list; calls : int; spills_after_add : int list;
             after_seek : (string * (string * string) list) option (* seek target, entries delivered after the seek *);
             history : (string option * (string * string) option) list (* then: next (None) / seek target, what next returned *) }

let run_impl ~(ops : (string * string) list) ~maxmem ~pool ~use_write ~fail_at ~tmp : child_end =
  in_child (fun () ->
    c_mkstemp_reset ();
    let mc = Mg.c_merge_clos_new 1 fail_at in
    (* pool < 0: a pool object with zero threads *)
    let p = if pool > 0 then Wr.c_pool_init pool else if pool < 0 then Wr.c_pool_init 0 else 0n in
    let s = c_sorter_init maxmem tmp mc p in
    let spills = ref [] in
    let adds = List.map (fun (k, v) -> let r = c_sorter_add s k v in spills := c_mkstemp_count () :: !spills; r) ops in
    let after_seek = ref None in
    let history = ref [] in
    let result, late_add, late_write =
      if use_write then begin
        let path = Filename.concat tmp (Printf.sprintf "so_out_%d.mtbl" (Unix.getpid ())) in
        (try Sys.remove path with _ -> ());
        let fd = Wr.c_open_rw path true in
        (* every second pooled case: the writer uses the SAME pool as the sorter (a worker that ran an unordered chunk job is
           reused for an ordered block job) *)
        let w = Wr.c_writer_init_fd fd (1, false, 0, true, 1024, false, 0, (if pool > 0 && (List.length ops + maxmem) mod 2 = 0 then p else 0n)) in
        let ok = c_sorter_write s w in
        Wr.c_writer_destroy w; Wr.c_close fd;
        let la = c_sorter_add s "late" "x" in
        let r = if ok then begin
            let rd = Rd.c_reader_init path false false in
            if rd = 0n then None else begin
              let it = Rd.c_source_iter (Rd.c_reader_source rd) in
              let out = ref [] in
              let continue = ref true in
              while !continue do match Rd.c_iter_next it with Some e -> out := e :: !out | None -> continue := false done;
              Rd.c_iter_destroy it; Rd.c_reader_destroy rd; Some (List.rev !out) end end else None in
        (try Sys.remove path with _ -> ());
        (* a second write after the first one began iteration must be refused *)
        let path2 = path ^ ".2" in
        (try Sys.remove path2 with _ -> ());
        let fd2 = Wr.c_open_rw path2 true in
        let w2 = Wr.c_writer_init_fd fd2 (0, false, 0, false, 0, false, 0, 0n) in
        let lw = c_sorter_write s w2 in
        Wr.c_writer_destroy w2; Wr.c_close fd2; (try Sys.remove path2 with _ -> ());
        (r, la, lw)
      end else begin
        let it = c_sorter_iter s in
        if it = 0n then (None, c_sorter_add s "late" "x", false) else begin
          let out = ref [] in
          let continue = ref true in
          while !continue do match Rd.c_iter_next it with Some e -> out := e :: !out | None -> continue := false done;
          let la = c_sorter_add s "late" "x" in
          (* mtbl_iter_seek on the sorter's iterator (after exhaustion): back to a key in the middle, drain again *)
          (match ops with
           | [] -> ()
           | _ ->
             let keys = List.sort_uniq compare (List.map fst ops) in
             let target = List.nth keys (List.length keys / 2) in
             let target = if List.length ops mod 3 = 0 then target ^ "\000" else target in
             if Rd.c_iter_seek it target then begin
               let out2 = ref [] in
               let continue = ref true in
               while !continue do match Rd.c_iter_next it with Some e -> out2 := e :: !out2 | None -> continue := false done;
               after_seek := Some (target, List.rev !out2)
             end else after_seek := Some (target ^ " (seek failed)", []);
             (* then a history of next / seek calls on the same iterator, forwards and backwards, several seeks in a row
                (a forward seek that only runs lagging chunks off their end, followed by a seek back): chosen from the
                keys added, their neighbours and keys past the end, by a generator seeded from the add sequence *)
             let st = Random.State.make [| Hashtbl.hash ops; List.length ops |] in
             let karr = Array.of_list ("" :: "\255\255" :: List.concat_map (fun k -> [ k; k ^ "\000"; (if k = "" then k else String.sub k 0 (String.length k - 1)) ]) keys) in
             let first = List.hd keys in
             if Rd.c_iter_seek it first then begin
               for _ = 1 to 14 do
                 if Random.State.int st 5 < 2 then begin
                   let t = karr.(Random.State.int st (Array.length karr)) in
                   if Rd.c_iter_seek it t then history := (Some t, None) :: !history
                 end else history := (None, Rd.c_iter_next it) :: !history
               done;
               (* directed: back to the start, one next, a forward seek just past the j-th key (for a sorted add sequence
                  some j is the end of the first chunk: the seek moves nothing but runs that chunk off its end), a seek
                  back to the second key, next *)
               let nk = List.length keys in
               if nk >= 3 then
                 List.iter (fun j ->
                   let seek t = if Rd.c_iter_seek it t then history := (Some t, None) :: !history in
                   let next () = history := (None, Rd.c_iter_next it) :: !history in
                   seek first; next (); seek (List.nth keys j ^ "\000"); seek (List.nth keys 1); next (); next ())
                   (List.sort_uniq compare (List.filter (fun j -> j >= 1 && j < nk) ([ 1; 2; 3; 4; 5; 6; 7; 8; nk / 4; nk / 3; nk / 2; 2 * nk / 3; 3 * nk / 4; nk - 2; nk - 1 ])))
             end);
          Rd.c_iter_destroy it;
          (Some (List.rev !out), la, false)
        end
      end in
    let n = c_mkstemp_count () in
    let templates = List.init (min n 256) c_mkstemp_template in
    c_sorter_destroy s;
    if pool <> 0 then Wr.c_pool_destroy p;
    Mg.c_merge_clos_free mc;
    "DONE" ^ Marshal.to_string { adds; result; late_add; late_write; nspills = n; templates; calls = 0; spills_after_add = List.rev !spills; after_seek = !after_seek; history = List.rev !history } [])

let hangs = ref 0
let check acc ~klass ~(ops : (string * string) list) ~maxmem ~pool ~use_write ~fail_at =
  if !hangs >= 3 && pool <> 0 then () else
  (* the configured temporary directory: short, or (every fourth case) a path of more than 255 bytes made of nested
     directories - longer than any single path component may be, well below PATH_MAX *)
  let tmp = Filename.concat (Wr.tmpdir ()) "sorter_spill" in
  (try Unix.mkdir tmp 0o755 with _ -> ());
  let tmp = if (List.length ops + maxmem + pool) mod 4 <> 0 then tmp else begin
      let d = ref tmp in
      List.iter (fun c -> d := Filename.concat !d (String.make 70 c); (try Unix.mkdir !d 0o755 with _ -> ())) [ 'a'; 'b'; 'c'; 'd' ];
      bump acc "long_temp_dir";
      !d end in
  let case = lazy (JO [ "adds", entries_json ops; "max_memory", JI maxmem; "pool", JI pool; "via_sorter_write", JB use_write; "merge_fails_at", JI fail_at ]) in
  (* model *)
  let calls = ref 0 in
  let mf = Some (fun (_ : n list) v0 v1 -> incr calls; if fail_at > 0 && !calls = fail_at then None else Some (v0 @ [ n_of_int 124 ] @ v1)) in
  let sort l = List.stable_sort (fun (a, _) (b, _) -> compare (string_of_nl a) (string_of_nl b)) l in
  let st = ref (sorter_init (n_of_int maxmem)) in
  let madds = List.map (fun (k, v) ->
    match sorter_add mf sort !st (nl_of_string k) (nl_of_string v) with
    | Ok (s', r) -> st := s'; r
    | _ -> false) ops in
  let mres = (match sorter_iter mf sort !st with
      | Ok (s', Some it) ->
        st := s';
        let out = ref [] in
        let it = ref it in
        let continue = ref true in
        let fuel = ref (List.length ops + 2) in
        while !continue && !fuel > 0 do
          decr fuel;
          (match sorter_next mf !it with
           | (it', Some (k, v)) -> it := it'; out := (string_of_nl k, string_of_nl v) :: !out
           | (_, None) -> continue := false)
        done;
        `Out (List.rev !out)
      | Ok (s', None) -> st := s'; `Null
      | _ -> `Abort) in
  let nchunks = List.length (!st).so_chunks in
  let dups = List.length ops - List.length (List.sort_uniq compare (List.map fst ops)) in
  record acc ~key:(json_to_string (Lazy.force case)) ~nontrivial:(nchunks >= 2 || dups >= 1) ~klass case;
  bump acc (Printf.sprintf "pool=%d" pool); bumpn acc "chunks" nchunks;
  (* implementation *)
  (match run_impl ~ops ~maxmem ~pool ~use_write ~fail_at ~tmp with
   | Exited (_, s) when String.length s > 4 && String.sub s 0 4 = "DONE" ->
     let o : out = Marshal.from_string s 4 in
     let casej () = Lazy.force case in
     (* templates: only inside the configured directory *)
     let pid_prefix = tmp ^ "/.mtbl." in
     List.iter (fun t -> if not (String.length t > String.length pid_prefix && String.sub t 0 (String.length pid_prefix) = pid_prefix) then
                   fail acc ~kind:"spec_violation" ~what:"[C06] a spill file was created outside the configured temporary directory" (JO [ "case", casej (); "template", JS t ])) o.templates;
     if o.nspills <> nchunks then
       fail acc ~kind:"model_mismatch" ~what:"[C06] number of spill files" (JO [ "case", casej (); "impl", JI o.nspills; "model", JI nchunks ]);
     if fail_at = 0 then begin
       if o.adds <> madds then fail acc ~kind:"model_mismatch" ~what:"[C06] mtbl_sorter_add results" (casej ());
       (* specification *)
       let tbl = Hashtbl.create 64 in
       List.iter (fun (k, v) -> Hashtbl.replace tbl k (v :: (try Hashtbl.find tbl k with Not_found -> []))) ops;
       let expect = List.sort compare (Hashtbl.fold (fun k vs l -> (k, List.sort compare vs) :: l) tbl []) in
       (match o.result with
        | Some out ->
          if canon out <> expect then
            fail acc ~kind:"spec_violation" ~what:"[C06,C13] sorter output is not: each distinct key once, ascending, value = fold of exactly the values added for it"
              (JO [ "case", casej (); "got", entries_json out ]);
          (match mres with
           | `Out mout -> if canon mout <> canon out then fail acc ~kind:"model_mismatch" ~what:"[C06,C13] sorter output" (casej ())
           | _ -> fail acc ~kind:"model_mismatch" ~what:"[C06] model sorter does not produce an iterator" (casej ()))
        | None -> fail acc ~kind:"spec_violation" ~what:"[C06] sorter produced no output (iterator NULL / write failed)" (casej ()));
       (match o.after_seek with
        | Some (target, out2) ->
          bump acc "seek_on_sorter_iterator";
          let expect2 = List.filter (fun (k, _) -> compare k target >= 0) expect in
          if canon out2 <> expect2 then
            fail acc ~kind:"spec_violation" ~what:((if pool <> 0 then "[C06,C05,C13]" else "[C06,C05]") ^ " after mtbl_iter_seek on the sorter's iterator the entries delivered are not exactly those with key >= target, in order")
              (JO [ "case", casej (); "target", jbytes target; "got", entries_json out2 ])
        | None -> ());
       (* the next / seek history that followed (it began with a seek to the first key): a cursor over the expected output *)
       (match (match o.result with Some _ -> o.history | None -> []) with
        | [] -> ()
        | h ->
          bump acc "next_seek_history_on_sorter_iterator";
          let cur = ref expect in
          (try List.iteri (fun i (op, r) ->
               match op with
               | Some t -> cur := List.filter (fun (k, _) -> compare k t >= 0) expect
               | None ->
                 let want_e = (match !cur with e :: tl -> cur := tl; Some e | [] -> None) in
                 if (match r with Some e -> Some (List.hd (canon [ e ])) | None -> None) <> want_e then begin
                   fail acc ~kind:"spec_violation" ~what:((if pool <> 0 then "[C06,C05,C13]" else "[C06,C05]") ^ " in a next/seek history on the sorter's iterator a call of next does not deliver the first entry at or after the last seek target, then its successors")
                     (JO [ "case", casej (); "step", JI i;
                           "history", JL (List.map (fun (op, r) -> match op with Some t -> JO [ "seek", jbytes t ] | None -> (match r with Some (k, _) -> JO [ "next", jbytes k ] | None -> JS "next: end")) h) ]);
                   raise Exit end) h
           with Exit -> ()));
       if o.late_add then fail acc ~kind:"spec_violation" ~what:"[C06] mtbl_sorter_add accepted after iteration had begun" (casej ());
       if o.late_write then fail acc ~kind:"spec_violation" ~what:"[C06] mtbl_sorter_write accepted after iteration had begun" (casej ());
       (* spill bound (specification): with no pool a spill is synchronous; after every add the entries buffered
          since the last spill - 8-byte header + key + value each, plus one pointer each - are below max_memory *)
       if pool = 0 then begin
         let hdr = int_of_n sORTER_ENTRY_HEADER and ptr = int_of_n sORTER_PTR_BYTES in
         let buffered = ref 0 and last = ref 0 in
         List.iteri (fun i ((k, v), cnt) ->
           if cnt > !last then (last := cnt; buffered := 0)
           else begin
             buffered := !buffered + hdr + String.length k + String.length v + ptr;
             if !buffered >= maxmem then
               fail acc ~kind:"spec_violation" ~what:(Printf.sprintf "[C06] after add #%d the buffered entries (%d bytes) have reached max_memory (%d) and no spill has happened" (i + 1) !buffered maxmem) (casej ())
           end) (List.combine ops o.spills_after_add)
       end
     end else begin
       (* failing merge: outcome classes only (pool > 0 defers the failure) *)
       if pool = 0 then begin
         let impl_class = (match o.result with Some _ -> "output" | None -> "null") in
         let model_class = (match mres with `Out _ -> "output" | `Null -> "null" | `Abort -> "abort") in
         if impl_class <> model_class then fail acc ~kind:"model_mismatch" ~what:"[C06] outcome with a failing merge function" (JO [ "case", casej (); "impl", JS impl_class; "model", JS model_class ])
       end
     end
   | Signaled (sg, _) when sg = Sys.sigalrm ->
     incr hangs;
     fail acc ~kind:"spec_violation" ~what:"[C06,C13] the sorter did not finish (no progress for 20 s): an add, mtbl_sorter_iter/write or destroy hangs" (Lazy.force case)
   | Signaled (sg, _) ->
     (match mres with
      | `Abort -> bump acc "abort_both"
      | _ when fail_at > 0 -> bump acc "abort_after_failing_merge_with_pool"   (* a failed chunk leaves a NULL reader; sorter_iter asserts (observation O3, outside the property) *)
      | _ -> fail acc ~kind:"model_mismatch" ~what:"[C06] implementation stopped by a signal" (JO [ "case", Lazy.force case; "signal", JI sg ]);
        if fail_at = 0 then fail acc ~kind:"spec_violation" ~what:"[C06,C13] the sorter stopped the process" (JO [ "case", Lazy.force case; "signal", JI sg ]))
   | Exited (_, s) -> fail acc ~kind:"model_mismatch" ~what:"[C06] harness error" (JO [ "case", Lazy.force case; "msg", JS s ]))

let entry_cost (k, v) = 8 + String.length k + String.length v + 8

(* merge functions whose result is not longer than its operands (the larger / the smaller value by (length, bytes)):
   sorter output = per key the maximum / minimum of the values added, whatever the chunking and with or without a pool *)
let minmax_cases acc st =
  List.iter (fun (kind, maxmem, pool) ->
    let nkeys = rrange st 2 6 in
    let ops = List.init (rrange st 10 60) (fun i -> (Printf.sprintf "k%d" (rint st nkeys), String.make (rrange st 0 12) (Char.chr (97 + (i * 7 + rint st 3) mod 26)))) in
    let case = lazy (JO [ "merge", JS (if kind = 3 then "larger by (length, bytes)" else "smaller by (length, bytes)"); "adds", entries_json ops; "max_memory", JI maxmem; "pool", JI pool ]) in
    record acc ~key:(json_to_string (Lazy.force case)) ~nontrivial:true ~klass:"minmax_merge" case;
    let tmp = Filename.concat (Wr.tmpdir ()) "sorter_spill" in
    (try Unix.mkdir tmp 0o755 with _ -> ());
    let r = in_child (fun () ->
        let mc = Mg.c_merge_clos_new kind 0 in
        let p = if pool > 0 then Wr.c_pool_init pool else 0n in
        let s = c_sorter_init maxmem tmp mc p in
        List.iter (fun (k, v) -> ignore (c_sorter_add s k v)) ops;
        let it = c_sorter_iter s in
        let out = ref [] in
        let continue = ref true in
        if it <> 0n then (while !continue do (match Rd.c_iter_next it with Some e -> out := e :: !out | None -> continue := false) done; Rd.c_iter_destroy it);
        c_sorter_destroy s; if pool > 0 then Wr.c_pool_destroy p; Mg.c_merge_clos_free mc;
        "DONE" ^ Marshal.to_string (List.rev !out) []) in
    let better a b = let c = compare (String.length a, a) (String.length b, b) in if kind = 3 then c >= 0 else c <= 0 in
    let tbl = Hashtbl.create 16 in
    List.iter (fun (k, v) -> match Hashtbl.find_opt tbl k with Some b when better b v -> () | _ -> Hashtbl.replace tbl k v) ops;
    let expect = List.sort compare (Hashtbl.fold (fun k v l -> (k, v) :: l) tbl []) in
    (match r with
     | Exited (_, s) when String.length s > 4 && String.sub s 0 4 = "DONE" ->
       let got : (string * string) list = Marshal.from_string s 4 in
       if got <> expect then
         fail acc ~kind:"spec_violation" ~what:((if pool > 0 then "[C06,C13]" else "[C06]") ^ " sorter output is not, per key, the fold of the merge function over the values added (a merge function returning one of its operands)")
           (JO [ "case", Lazy.force case; "got", entries_json got; "expected", entries_json expect ])
     | _ -> fail acc ~kind:"spec_violation" ~what:"[C06] the sorter stopped the process" (Lazy.force case)))
    [ (3, 1, 0); (4, 1, 0); (3, 100000000, 0); (4, 100000000, 0); (3, 200, 0); (4, 200, 0); (3, 150, 2); (4, 150, 3); (4, 1, 1) ]

let run ~tier ~seed ~only acc =
  child_time_limit := 20;
  let idx = ref 0 in
  let want () = cur_index := !idx; (match only with None -> true | Some i -> i = !idx) in
  let directed = [
    ("empty_input", [], 1, 0); ("empty_input", [], 100000, 2);
    ("single", [ ("", "E") ], 1, 0);
    ("all_equal", List.init 9 (fun i -> ("k", Printf.sprintf "v%d" i)), 1, 0);
    ("all_equal", List.init 9 (fun i -> ("k", Printf.sprintf "v%d" i)), 70, 2);
    ("all_equal", List.init 9 (fun i -> ("k", Printf.sprintf "v%d" i)), 100000, 0);
    ("dups_varied_len", [ ("ant", "ab"); ("cat", "x"); ("ant", "cdef"); ("cat", "yyyy"); ("ant", "g") ], 100000, 0);
    ("chunk_boundary_exact", List.init 24 (fun i -> (Printf.sprintf "k%02d" (i mod 20), Printf.sprintf "v%02d" i)), 8 * 22, 2);
    ("reverse", List.init 30 (fun i -> (Printf.sprintf "k%02d" (29 - i), "v")), 100, 3);
    (* a pool object with zero worker threads *)
    ("pool_of_zero_threads", List.init 12 (fun i -> (Printf.sprintf "k%02d" (i mod 7), Printf.sprintf "v%02d" i)), 60, -1);
    ("pool_of_zero_threads", [ ("a", "1") ], 100000, -1);
    (* fixed 32-byte records against a power-of-two limit: the running total lands exactly on the limit *)
    ("limit_hit_exactly", List.init 20 (fun i -> (Printf.sprintf "k%03d" i, String.make 12 'v')), 128, 0);
    ("limit_hit_exactly", List.init 40 (fun i -> (Printf.sprintf "k%03d" (i mod 9), String.make 12 'v')), 256, 0);
    (* lengths at the edges of the varint encodings in the chunk files: a value of 128 / 256 bytes under the empty key
       (also reached by merging 100 + 1 + 27 bytes), a key of 16384 bytes with nothing shared, one byte either side *)
    ("varint_edge_lengths", [ ("", String.make 128 'v'); ("b", String.make 256 'w'); ("c", String.make 127 'x'); ("d", String.make 129 'y') ], 1, 0);
    ("varint_edge_lengths", [ ("", String.make 128 'v'); ("b", String.make 256 'w'); ("c", String.make 127 'x'); ("d", String.make 129 'y') ], 1000000, 2);
    ("varint_edge_lengths", [ ("", String.make 100 'v'); ("b", "w"); ("", String.make 27 'u') ], 1, 0);
    ("varint_edge_lengths", [ ("", String.make 100 'v'); ("b", "w"); ("", String.make 27 'u'); ("", String.make 127 't') ], 1000000, 0);
    ("varint_edge_lengths", [ (String.make 16384 'k', "v"); ("a", "1"); (String.make 16383 'j', "2"); (String.make 16385 'l', "3"); (String.make 128 'm', String.make 16384 'z') ], 1, 0);
    ("varint_edge_lengths", [ (String.make 16384 'k', "v"); ("a", "1"); (String.make 16383 'j', "2"); (String.make 16385 'l', "3"); (String.make 128 'm', String.make 16384 'z') ], 40000, 1);
  ] in
  List.iter (fun (klass, ops, maxmem, pool) ->
    List.iter (fun use_write -> if want () then check acc ~klass ~ops ~maxmem ~pool ~use_write ~fail_at:0; incr idx) [ false; true ]) directed;
  if want () then minmax_cases acc (case_rng ~seed ~engine ~index:!idx); incr idx;
  let n = if tier = "thorough" then 3000 else 150 in
  for _ = 1 to n do
    if want () then begin
      let st = case_rng ~seed ~engine ~index:!idx in
      let nkeys = rrange st 1 25 in
      let nops = rrange st 0 60 in
      let mode = rint st 4 in
      let ops = List.init nops (fun i ->
        let ki = (match mode with 0 -> rint st nkeys | 1 -> i | 2 -> nops - i | _ -> rint st 3) in
        let k = if ki = 0 && rint st 4 = 0 then "" else Printf.sprintf "k%03d" ki in
        (k, Printf.sprintf "a%d%s" i (String.make (rint st 5) 'z'))) in
      let total = List.fold_left (fun a e -> a + entry_cost e) 0 ops in
      let maxmem = (match rint st 6 with
          | 0 -> 1
          | 1 -> max 1 (total + rrange st (-2) 2)                (* boundary: everything just (not) fits *)
          | 2 -> max 1 (total / (rrange st 2 6) + rrange st (-1) 1)
          | 3 -> 1000000
          | _ -> rrange st 20 (max 21 total)) in
      let pool = (match rint st 3 with 0 -> 0 | _ -> if rint st 12 = 0 then -1 else rrange st 0 8) in
      let fail_at = if rint st 10 = 0 then rrange st 1 5 else 0 in
      check acc ~klass:(match mode with 0 -> "random_dups" | 1 -> "sorted" | 2 -> "reverse" | _ -> "few_keys") ~ops ~maxmem ~pool ~use_write:(rbool st) ~fail_at
    end;
    incr idx
  done
