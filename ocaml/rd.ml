(* Engine "rd": the reader.  Tables come from the real writer (all configurations)
   and from the independent encoder (ocaml/enc.ml: legal layouts the writer never
   emits, format v1).  On each table: full iteration (+ mtbl_dump), lookups,
   next/seek histories on the four iterator kinds - implementation vs the reader
   model (model/Reader.v) vs the sorted-list cursor specification.
   Serves C01, C02, C03, C11. *)
open Common
open Mtbl_model
type string = Stdlib.String.t
open Gen

external c_reader_init : string -> bool -> bool -> nativeint = "vp_reader_init"
external c_reader_destroy : nativeint -> unit = "vp_reader_destroy"
external c_reader_source : nativeint -> nativeint = "vp_reader_source"
external c_source_iter : nativeint -> nativeint = "vp_source_iter"
external c_source_get : nativeint -> string -> nativeint = "vp_source_get"
external c_source_get_prefix : nativeint -> string -> nativeint = "vp_source_get_prefix"
external c_source_get_range : nativeint -> string -> string -> nativeint = "vp_source_get_range"
external c_iter_next : nativeint -> (string * string) option = "vp_iter_next"
external c_iter_next_raw : nativeint -> (nativeint * int * nativeint * int) option = "vp_iter_next_raw"
external c_peek : nativeint -> int -> string = "vp_peek"
external c_iter_seek : nativeint -> string -> bool = "vp_iter_seek"
external c_iter_destroy : nativeint -> unit = "vp_iter_destroy"

let engine = "rd"
let rule = "tables: written by the real writer over the configuration space of engine wr (compression x block size x restart interval x prefix) and built by the independent encoder with random legal layouts (format v1/v2, arbitrary block boundaries, restart positions, non-maximal sharing, shortened separators, leading foreign bytes). Per table: full iteration (+ mtbl_dump -x and its -k/-v/-K/-V filters), get/get_prefix/get_range for every stored key, neighbours, proper prefixes, one-byte extensions, every index separator key and its neighbours, the empty key, reversed ranges; random next/seek histories on the four iterator kinds with several iterators interleaved on one reader (returned buffers re-read just before the next call on that iterator); thorough: every (position, target) pair on small tables. Non-trivial: table has >= 2 entries; distinct by (table, operation sequence)."

type kind = Iter | Get of string | Prefix of string | Range of string * string
let kind_json = function
  | Iter -> JS "iter" | Get k -> JL [ JS "get"; jbytes k ] | Prefix p -> JL [ JS "get_prefix"; jbytes p ]
  | Range (a, b) -> JL [ JS "get_range"; jbytes a; jbytes b ]
type op = Next | Seek of string
let op_json = function Next -> JS "next" | Seek k -> JL [ JS "seek"; jbytes k ]

let is_prefix p k = String.length p <= String.length k && String.sub k 0 (String.length p) = p

(* ---- specification: cursor over the sorted entry list ----------------------- *)
type spec_it = { es : (string * string) array; bound : string -> bool; mutable pos : int; mutable valid : bool }
let first_ge es k =
  let n = Array.length es in
  let i = ref 0 in
  while !i < n && compare (fst es.(!i)) k < 0 do incr i done; !i
let spec_create es = function
  | Iter -> { es; bound = (fun _ -> true); pos = 0; valid = true }
  | Get k -> { es; bound = (fun x -> x = k); pos = first_ge es k; valid = true }
  | Prefix p -> { es; bound = is_prefix p; pos = first_ge es p; valid = true }
  | Range (a, b) -> { es; bound = (fun x -> compare x b <= 0); pos = first_ge es a; valid = true }
let spec_step s = function
  | Seek k -> s.pos <- first_ge s.es k; s.valid <- true; None
  | Next ->
    if not s.valid then None
    else if s.pos >= Array.length s.es then (s.valid <- false; None)
    else begin
      let (k, v) = s.es.(s.pos) in
      if s.bound k then (s.pos <- s.pos + 1; Some (k, v)) else (s.valid <- false; None)
    end

(* ---- model iterator ----------------------------------------------------------- *)
exception Model_stuck of string
type model_it = { rd : reader; mutable it : riter option }
let unres what = function
  | Ok x -> x
  | Fail -> raise (Model_stuck (what ^ ": Fail")) | Abort -> raise (Model_stuck (what ^ ": Abort"))
  | Oob -> raise (Model_stuck (what ^ ": Oob"))
let dec = Wr.oracle_decompress
let model_create (rd : reader) k : model_it =
  let nl = nl_of_string in
  let it = unres "create" (match k with
      | Iter -> reader_iter dec rd
      | Get key -> reader_get dec rd (nl key)
      | Prefix p -> reader_get_prefix dec rd (nl p)
      | Range (a, b) -> reader_get_range dec rd (nl a) (nl b)) in
  { rd; it }
let model_step (m : model_it) = function
  | Seek k ->
    (match m.it with
     | None -> None
     | Some it -> let (it', _) = unres "seek" (reader_iter_seek dec m.rd it (nl_of_string k)) in m.it <- Some it'; None)
  | Next ->
    (match m.it with
     | None -> None
     | Some it ->
       let (it', e) = unres "next" (reader_iter_next dec m.rd it) in
       m.it <- Some it';
       (match e with Some (k, v) -> Some (string_of_nl k, string_of_nl v) | None -> None))

(* ---- implementation iterator, with the buffer-stability observation ------------ *)
type impl_it = { h : nativeint; mutable last : (nativeint * int * nativeint * int * string * string) option }
let impl_create src = function
  | Iter -> { h = c_source_iter src; last = None }
  | Get k -> { h = c_source_get src k; last = None }
  | Prefix p -> { h = c_source_get_prefix src p; last = None }
  | Range (a, b) -> { h = c_source_get_range src a b; last = None }
(* returns the entry and whether the previously returned buffers were still intact *)
let impl_step (i : impl_it) op : (string * string) option * bool =
  let intact = (match i.last with
      | None -> true
      | Some (kp, kl, vp, vl, k, v) -> c_peek kp kl = k && c_peek vp vl = v) in
  i.last <- None;
  if i.h = 0n then (None, intact) else
  match op with
  | Seek k -> ignore (c_iter_seek i.h k); (None, intact)
  | Next ->
    (match c_iter_next_raw i.h with
     | None -> (None, intact)
     | Some (kp, kl, vp, vl) ->
       let k = c_peek kp kl and v = c_peek vp vl in
       i.last <- Some (kp, kl, vp, vl, k, v); (Some (k, v), intact))
let impl_destroy (i : impl_it) = if i.h <> 0n then c_iter_destroy i.h

let show_e = function None -> "fail" | Some (k, v) -> Printf.sprintf "(%s,%d bytes)" (match jbytes k with JS s -> s | _ -> "") (String.length v)

(* run a history on one iterator kind, comparing step by step *)
let run_history acc ~props ~table_json ~(es : (string * string) array) ~src ~(rd : reader) k (ops : op list) =
  let case () = JO [ "table", table_json (); "iterator", kind_json k; "history", JL (List.map op_json ops) ] in
  let i = impl_create src k in
  let s = spec_create es k in
  let m = (try Some (model_create rd k) with Model_stuck w ->
      fail acc ~kind:"model_mismatch" ~what:(props ^ " model reader stuck at " ^ w) (case ()); None) in
  (try
     List.iteri (fun n op ->
       let (ie, intact) = impl_step i op in
       let se = spec_step s op in
       if not intact then begin
         fail acc ~kind:"spec_violation" ~what:"[C03] key/value buffers handed out were modified before the next call on that iterator" (JO [ "case", case (); "step", JI n ]);
         raise Exit end;
       (match m with
        | Some m ->
          let me = (try model_step m op with Model_stuck w ->
              fail acc ~kind:"model_mismatch" ~what:(props ^ " model reader stuck at " ^ w) (JO [ "case", case (); "step", JI n ]); ie) in
          if me <> ie then begin
            fail acc ~kind:"model_mismatch" ~what:(props ^ " iterator step result") (JO [ "case", case (); "step", JI n; "impl", JS (show_e ie); "model", JS (show_e me) ]);
          end
        | None -> ());
       if ie <> se then begin
         fail acc ~kind:"spec_violation" ~what:(props ^ " iterator returned " ^ show_e ie ^ " where the sorted-list cursor gives " ^ show_e se)
           (JO [ "case", case (); "step", JI n ]);
         raise Exit end) ops
   with Exit -> ());
  impl_destroy i

let drain = List.init 6 (fun _ -> Next)
let rec nexts n = if n <= 0 then [] else Next :: nexts (n - 1)

(* strings adjacent to a key *)
let neighbours (k : string) : string list =
  let n = String.length k in
  let l = ref [ k; k ^ "\x00"; k ^ "\xff" ] in
  if n > 0 then begin
    l := String.sub k 0 (n - 1) :: !l;
    let c = Char.code k.[n - 1] in
    if c > 0 then l := (String.sub k 0 (n - 1) ^ String.make 1 (Char.chr (c - 1))) :: (String.sub k 0 (n - 1) ^ String.make 1 (Char.chr (c - 1)) ^ "\xff") :: !l;
    if c < 255 then l := (String.sub k 0 (n - 1) ^ String.make 1 (Char.chr (c + 1))) :: !l
  end;
  !l
let prefixes k = List.init (String.length k) (fun i -> String.sub k 0 i)

let query_set (es : (string * string) array) (seps : string list) : string array =
  let ks = Array.to_list (Array.map fst es) in
  let ks = if List.length ks > 40 then List.filteri (fun i _ -> i mod (List.length ks / 30 + 1) = 0 || i < 3 || i > List.length ks - 3) ks else ks in
  let all = List.concat_map neighbours ks @ List.concat_map (fun k -> if String.length k <= 8 then prefixes k else [ String.sub k 0 1; String.sub k 0 (String.length k / 2) ]) ks
            @ List.concat_map neighbours seps @ [ ""; "\xff\xff\xff"; "\x00" ] in
  Array.of_list (List.sort_uniq compare (List.filter (fun k -> String.length k < 300) all))

let model_open acc ~props ~table_json (file : string) ~verify : reader option =
  match reader_open (nl_of_string file) verify with
  | (Ok (Some r), _) -> Some r
  | _ -> fail acc ~kind:"model_mismatch" ~what:(props ^ " model reader does not open the table") (table_json ()); None

let index_keys (r : reader) : string list =
  match r.r_index with Some ib -> List.map (fun e -> string_of_nl e.pe_key) ib.ab_entries | None -> []

let dump_bin () = Filename.concat (try Sys.getenv "VERIF_BUILD" with Not_found -> "/verif/build") "bin/mtbl_dump"
let run_dump path (args : string) : string list =
  let cmd = Printf.sprintf "%s %s %s 2>/dev/null" (Filename.quote (dump_bin ())) args (Filename.quote path) in
  let ic = Unix.open_process_in cmd in
  let lines = ref [] in
  (try while true do lines := input_line ic :: !lines done with End_of_file -> ());
  ignore (Unix.close_process_in ic); List.rev !lines
let hex_dash s = Printf.sprintf "%08x:%s" (String.length s) (String.concat "-" (List.init (String.length s) (fun i -> Printf.sprintf "%02x" (Char.code s.[i]))))
let dump_line (k, v) = hex_dash k ^ " " ^ hex_dash v
(* the model of src/mtbl_dump.c (model/Tools.v, extracted): what T01_dump says the tool prints *)
let model_dump ?kp ?vp ?(kmin = 0) ?(vmin = 0) (es : (string * string) list) : string list =
  let o = { do_key_prefix = (match kp with Some p -> Some (nl_of_string p) | None -> None);
            do_val_prefix = (match vp with Some p -> Some (nl_of_string p) | None -> None);
            do_key_min = n_of_int kmin; do_val_min = n_of_int vmin } in
  List.filter_map (fun (k, v) -> let e = (nl_of_string k, nl_of_string v) in
                    if dump_keep o e then Some (string_of_nl (dump_line_hex e)) else None) es
(* text mode (no -x) of the model; entries whose text contains a newline would span several output lines, so the
   comparison is made on the whole output *)
let model_dump_text (es : (string * string) list) : string =
  String.concat "" (List.map (fun (k, v) -> string_of_nl (dump_line_text (nl_of_string k, nl_of_string v)) ^ "\n") es)
let run_dump_raw path (args : string) : string =
  let cmd = Printf.sprintf "%s %s %s 2>/dev/null" (Filename.quote (dump_bin ())) args (Filename.quote path) in
  let ic = Unix.open_process_in cmd in
  let b = Buffer.create 4096 in
  (try while true do Buffer.add_channel b ic 1 done with End_of_file -> ());
  ignore (Unix.close_process_in ic); Buffer.contents b

(* ---- the memory-level model (model/IterMem.v, theorems T03m) against the real addresses --------------------
   An interleaved history over up to four iterators of one reader is run on the extracted machine [mrun] and on the
   implementation.  Per successful next: the same entry; where the model says the VALUE lives in the mapping at offset
   off, the real pointer is mapping base + off exactly, and where it says a heap buffer, the real pointer lies outside
   the mapping; the KEY always lives in a heap buffer.  After every operation, what each OTHER iterator was handed by
   its last next is re-read at the real addresses and must be unchanged (T03m_stability). *)
external c_last_mmap : unit -> nativeint * int = "vp_last_mmap"
let addr_check acc st ~props ~(table_json : unit -> json) ~(src : nativeint) ~(rd : reader) ~(es : (string * string) array) =
  let (base, maplen) = c_last_mmap () in
  let nkeys = Array.length es in
  let some_key () = if nkeys = 0 || rint st 5 = 0 then rbytes st (rint st 3) else (let k = fst es.(rint st nkeys) in if rint st 4 = 0 then k ^ "\000" else k) in
  let nops = rrange st 8 40 in
  let created = ref 0 in
  let ops = List.init nops (fun i ->
    if i < 2 || (!created < 4 && rint st 8 = 0) then begin
      incr created;
      (match rint st 4 with
       | 0 -> (`New (Iter), MNew (KIter, [], []))
       | 1 -> let k = some_key () in (`New (Get k), MNew (KGet, nl_of_string k, nl_of_string k))
       | 2 -> let k = some_key () in let p = String.sub k 0 (min (String.length k) (rint st 4)) in (`New (Prefix p), MNew (KPrefix, nl_of_string p, nl_of_string p))
       | _ -> let a = some_key () and b = some_key () in let (a, b) = if compare a b <= 0 then (a, b) else (b, a) in
         (`New (Range (a, b)), MNew (KRange, nl_of_string a, nl_of_string b)))
    end else begin
      let i = rint st !created in
      (match rint st 10 with
       | 0 -> (`Free i, MFree (nat_of_int i))
       | 1 | 2 -> let k = some_key () in (`Seek (i, k), MSeek (nat_of_int i, nl_of_string k))
       | _ -> (`Next i, MNext (nat_of_int i)))
    end) in
  (* in-place or moving rewrites of the key buffers: both are legal behaviours of realloc; the addresses of heap
     buffers are not compared, so either policy must agree with the implementation on what IS compared *)
  let pol = (let b = rbool st in fun (_ : mem) (_ : nat) (_ : n list) -> b) in
  bump acc "address_level_histories";
  match mrun dec pol rd (ms_init rd) (List.map snd ops) with
  | MFault | MErr -> fail acc ~kind:"model_mismatch" ~what:(props ^ " the memory-level iterator model faults on a history (T03m_refinement says it cannot)") (table_json ())
  | MOk (_, mouts) ->
    let impl = ref [||] in                      (* slot -> implementation iterator (0n: NULL or destroyed) *)
    let held : (int * (nativeint * int * nativeint * int * string * string)) list ref = ref [] in
    let in_map p = Nativeint.compare p base >= 0 && Nativeint.compare p (Nativeint.add base (Nativeint.of_int maplen)) < 0 in
    let bad = ref None in
    let note s = if !bad = None then bad := Some s in
    List.iteri (fun step ((o, _), mo) ->
      let acted = (match o with `New _ -> -1 | `Free i | `Seek (i, _) | `Next i -> i) in
      (match o, mo with
       | `New k, ONew created ->
         let it = impl_create src k in
         impl := Array.append !impl [| it.h |];
         if (it.h <> 0n) <> created then note (Printf.sprintf "step %d: iterator creation: implementation %s, model %s" step (if it.h <> 0n then "non-NULL" else "NULL") (if created then "non-NULL" else "NULL"))
       | `Free i, _ -> if i < Array.length !impl && !impl.(i) <> 0n then (c_iter_destroy !impl.(i); !impl.(i) <- 0n); held := List.filter (fun (j, _) -> j <> i) !held
       | `Seek (i, k), _ -> if i < Array.length !impl && !impl.(i) <> 0n then ignore (c_iter_seek !impl.(i) k); held := List.filter (fun (j, _) -> j <> i) !held
       | `Next i, mo ->
         held := List.filter (fun (j, _) -> j <> i) !held;
         if i < Array.length !impl && !impl.(i) <> 0n then begin
           (match c_iter_next_raw !impl.(i), mo with
            | None, ONext NFail -> ()
            | Some (kp, kl, vp, vl), ONext (NOk (ka, mkl, va, mvl, (mk, mv))) ->
              let k = c_peek kp kl and v = c_peek vp vl in
              if k <> string_of_nl mk || v <> string_of_nl mv || kl <> int_of_n mkl || vl <> int_of_n mvl then note (Printf.sprintf "step %d: next returns a different entry" step);
              (match va with
               | AFile off -> if Nativeint.sub vp base <> Nativeint.of_int (int_of_n off) then
                   note (Printf.sprintf "step %d: the value pointer is at mapping offset %nd, the model says the value lives at file offset %d" step (Nativeint.sub vp base) (int_of_n off))
               | AHeap (_, _) -> if vl > 0 && in_map vp then note (Printf.sprintf "step %d: the value pointer lies inside the file mapping, the model says a heap buffer (decompressed block)" step));
              (match ka with
               | AFile _ -> note (Printf.sprintf "step %d: the model places a key in the mapping" step)
               | AHeap (_, _) -> if kl > 0 && in_map kp then note (Printf.sprintf "step %d: the key pointer lies inside the file mapping, the model says the iterator's own key buffer" step));
              held := (i, (kp, kl, vp, vl, k, v)) :: !held
            | None, _ -> note (Printf.sprintf "step %d: next fails in the implementation, succeeds in the model" step)
            | Some _, _ -> note (Printf.sprintf "step %d: next succeeds in the implementation, fails in the model" step))
         end
       | _, _ -> ());
      (* what the OTHER iterators were handed stays intact *)
      List.iter (fun (j, (kp, kl, vp, vl, k, v)) ->
        if j <> acted && (c_peek kp kl <> k || c_peek vp vl <> v) then
          note (Printf.sprintf "step %d: an operation on iterator %d changed the buffers handed out to iterator %d" step acted j)) !held)
      (List.combine ops mouts);
    Array.iter (fun h -> if h <> 0n then c_iter_destroy h) !impl;
    (match !bad with
     | None -> ()
     | Some msg ->
       fail acc ~kind:"model_mismatch" ~what:(props ^ " memory-level iterator model (model/IterMem.v, T03m) and implementation disagree") (JO [ "table", table_json (); "what", JS msg ]);
       if (let has sub = (let ls = String.length msg and lb = String.length sub in let rec go i = i + lb <= ls && (String.sub msg i lb = sub || go (i + 1)) in go 0) in has "changed the buffers") then
         fail acc ~kind:"spec_violation" ~what:"[C03] buffers handed out by mtbl_iter_next were changed by an operation on another iterator of the same reader" (JO [ "table", table_json (); "what", JS msg ]))

(* everything we check on one table file *)
let check_table acc st ~props ~klass ~(table_json : unit -> json) ~(path : string) ~(file : string)
    ~(es : (string * string) list) ~with_dump ~tier =
  let esa = Array.of_list es in
  record acc ~key:(Digest.string file ^ klass) ~nontrivial:(Array.length esa >= 2) ~klass (lazy (table_json ()));
  let verify = rbool st in
  (* the environment override of the madvise option (reader_init_madvise): "0", "1", anything else, or not set -
     none of them may change what is read *)
  (match rint st 4 with
   | 0 -> Unix.putenv "MTBL_READER_MADVISE_RANDOM" "0"; bump acc "madvise_env=0"
   | 1 -> Unix.putenv "MTBL_READER_MADVISE_RANDOM" "1"; bump acc "madvise_env=1"
   | 2 -> Unix.putenv "MTBL_READER_MADVISE_RANDOM" "yes"; bump acc "madvise_env=other"
   | _ -> ());
  let r = c_reader_init path verify (rbool st) in
  if r = 0n then fail acc ~kind:"spec_violation" ~what:(props ^ " reader does not open a well-formed table") (table_json ())
  else begin
    let src = c_reader_source r in
    (match model_open acc ~props ~table_json file ~verify with
     | None -> ()
     | Some rd ->
       let hist k ops = run_history acc ~props ~table_json ~es:esa ~src ~rd k ops in
       (* the hypothesis of T11_legal_tables / T02_lookups / T03c: the table passes the
          extracted structural check, and the entries the theorems speak about are the
          entries that were written / encoded *)
       bump acc "table_check_runs";
       let block_keys = ref [] in      (* keys of every data block, from the checked table *)
       (match table_check dec rd with
        | Some ((_, _), bl) ->
          block_keys := List.map (fun (b, _) -> List.map (fun e -> string_of_nl e.pe_key) b.ab_entries) bl;
          let got = List.concat_map (fun (b, _) -> List.map (fun e -> (string_of_nl e.pe_key, string_of_nl e.pe_val)) b.ab_entries) bl in
          if got <> es then
            fail acc ~kind:"model_mismatch" ~what:"[C01,C02,C03,C11] table_check accepts the table but its entry list is not what was written" (table_json ())
        | None ->
          if es <> [] then
            fail acc ~kind:"model_mismatch" ~what:"[C01,C02,C03,C11] table_check (hypothesis of the reader theorems) rejects a table that was written by the writer / a legal encoder" (table_json ())
          else if index_keys rd <> [] then
            fail acc ~kind:"model_mismatch" ~what:"[C01,C11] empty table with a non-empty index" (table_json ()));
       (* C03 memory clauses: the address-level model against the real pointers (mapping recorded at this open) *)
       if Array.length esa <= 400 then (addr_check acc st ~props ~table_json ~src ~rd ~es:esa; if tier = "thorough" then addr_check acc st ~props ~table_json ~src ~rd ~es:esa);
       (* C01: full iteration *)
       hist Iter (nexts (Array.length esa + 2));
       if with_dump then begin
         bump acc "mtbl_dump_runs";
         let got = run_dump path "-x" in
         if got <> model_dump es then
           fail acc ~kind:"model_mismatch" ~what:"[C01] mtbl_dump -x differs from the model of the tool (T01_dump)" (table_json ());
         if got <> List.map dump_line es then
           fail acc ~kind:"spec_violation" ~what:"[C01] mtbl_dump -x does not print exactly the table's entries" (table_json ());
         (* text mode: quoted strings, non-printable bytes (and only those) as \xNN, the double quote escaped *)
         bump acc "mtbl_dump_text_runs";
         if run_dump_raw path "" <> model_dump_text es then begin
           fail acc ~kind:"model_mismatch" ~what:"[C01] mtbl_dump (text mode) differs from the model of the tool (T01_dump)" (table_json ());
           fail acc ~kind:"spec_violation" ~what:"[C01] mtbl_dump (text mode) does not print exactly the table's entries, each as two quoted strings with every byte outside 0x20..0x7e as \\xNN"
             (table_json ())
         end;
         (* filters *)
         if Array.length esa > 0 then begin
           let (k0, v0) = esa.(rint st (Array.length esa)) in
           let kp = String.sub k0 0 (min (String.length k0) (rrange st 1 3)) in
           let vp = String.sub v0 0 (min (String.length v0) (rrange st 1 2)) in
           let kmin = rrange st 1 6 and vmin = rrange st 1 30 in
           let tohex s = String.concat "" (List.init (String.length s) (fun i -> Printf.sprintf "%02x" (Char.code s.[i]))) in
           let args = ref "-x" and pred = ref (fun (_ : string * string) -> true) in
           let add a p = args := !args ^ " " ^ a; (let q = !pred in pred := (fun e -> q e && p e)) in
           let mkp = ref None and mvp = ref None and mkmin = ref 0 and mvmin = ref 0 in
           if kp <> "" && rbool st then (add ("-k " ^ tohex kp) (fun (k, _) -> is_prefix kp k); mkp := Some kp);
           if vp <> "" && rbool st then (add ("-v " ^ tohex vp) (fun (_, v) -> is_prefix vp v); mvp := Some vp);
           if rbool st then (add (Printf.sprintf "-K %d" kmin) (fun (k, _) -> String.length k >= kmin); mkmin := kmin);
           if rbool st then (add (Printf.sprintf "-V %d" vmin) (fun (_, v) -> String.length v >= vmin); mvmin := vmin);
           let got = run_dump path !args in
           if got <> model_dump ?kp:!mkp ?vp:!mvp ~kmin:!mkmin ~vmin:!mvmin es then
             fail acc ~kind:"model_mismatch" ~what:("[C01] mtbl_dump " ^ !args ^ " differs from the model of the tool (T01_dump)") (table_json ());
           if got <> List.map dump_line (List.filter !pred es) then
             fail acc ~kind:"spec_violation" ~what:("[C01] mtbl_dump " ^ !args ^ " does not print exactly the matching subsequence") (table_json ())
         end
       end;
       (* mtbl_dump -k / -v with every short prefix of the stored keys and values (binary prefixes, embedded 0x00) *)
       if with_dump && klass = "binary_keys_dump" then begin
         let tohex s = String.concat "" (List.init (String.length s) (fun i -> Printf.sprintf "%02x" (Char.code s.[i]))) in
         let prefixes_of l = List.sort_uniq compare (List.concat_map (fun s -> List.init (min 4 (String.length s)) (fun i -> String.sub s 0 (i + 1))) l) in
         List.iter (fun p ->
           bump acc "mtbl_dump_runs";
           if run_dump path ("-x -k " ^ tohex p) <> List.map dump_line (List.filter (fun (k, _) -> is_prefix p k) es) then
             fail acc ~kind:"spec_violation" ~what:("[C01] mtbl_dump -k " ^ tohex p ^ " does not print exactly the entries whose key begins with the prefix") (table_json ())) (prefixes_of (List.map fst es));
         List.iter (fun p ->
           bump acc "mtbl_dump_runs";
           if run_dump path ("-x -v " ^ tohex p) <> List.map dump_line (List.filter (fun (_, v) -> is_prefix p v) es) then
             fail acc ~kind:"spec_violation" ~what:("[C01] mtbl_dump -v " ^ tohex p ^ " does not print exactly the entries whose value begins with the prefix") (table_json ())) (prefixes_of (List.map snd es))
       end;
       (* C02: lookups *)
       let qs = query_set esa (index_keys rd) in
       (* quick tier: a random sample of the query set per table *)
       let qs = if tier <> "thorough" && Array.length qs > 36 then begin
           let a = Array.copy qs in
           for i = Array.length a - 1 downto 1 do let j = rint st (i + 1) in let t = a.(i) in a.(i) <- a.(j); a.(j) <- t done;
           let sub = Array.sub a 0 36 in Array.sort compare sub; sub end else qs in
       let nq = Array.length qs in
       bumpn acc "lookup_queries" nq;
       Array.iter (fun q ->
         hist (Get q) [ Next; Next ];
         hist (Prefix q) (nexts (min 8 (Array.length esa + 1)));
         let q2 = qs.(rint st nq) in
         hist (Range (q, q2)) (nexts (min 8 (Array.length esa + 1)))) qs;
       hist (Range ("\xff", "")) [ Next ];
       (* C03: histories; several iterators alive on the same reader *)
       let nh = if tier = "thorough" then 120 else 25 in
       let others = List.init 2 (fun _ -> impl_create src Iter) in
       for _ = 1 to nh do
         let k = (match rint st 4 with
             | 0 -> Iter | 1 -> Get qs.(rint st nq) | 2 -> Prefix qs.(rint st nq)
             | _ -> let a = qs.(rint st nq) and b = qs.(rint st nq) in Range (a, b)) in
         let start = (match k with Iter -> "" | Get k -> k | Prefix p -> p | Range (a, _) -> a) in
         let len = rrange st 1 14 in
         let ops = List.init len (fun _ ->
           if rint st 3 = 0 then begin
             (* seek target at or after the start of the iterator's range *)
             let t = qs.(rint st nq) in
             Seek (if compare t start >= 0 then t else start)
           end else Next) in
         hist k ops;
         List.iter (fun o -> ignore (impl_step o Next)) others
       done;
       List.iter impl_destroy others;
       (* directed at block ends (the states in which a block iterator has run off its block, or sits on the block's
          last entry): seek into the gap behind a block's last key, then to exactly that last key; run to the end
          of a block with next, cross into the following block, seek back to the last key; seek past the end of
          the table, then to the last key *)
       let nblk = List.length !block_keys in
       let pos = ref 0 in
       let seps = Array.of_list (index_keys rd) in
       (* the index iterator run off its end, then sought to its last key *)
       if Array.length seps > 0 then begin
         let ls = seps.(Array.length seps - 1) in
         hist Iter [ Seek (ls ^ "\000"); Next; Seek ls; Next; Next ];
         hist Iter [ Seek "\xff\xff\xff\xff"; Seek ls; Next ]
       end;
       List.iteri (fun bi keys ->
         let n = List.length keys in
         if bi < 8 && n > 0 then begin
           let last = List.nth keys (n - 1) in
           bump acc "block_end_histories";
           hist Iter [ Seek (last ^ "\000"); Seek last; Next; Next ];
           (* a separator strictly above the block's last key: seeking to it runs the block iterator off the end of
              this block; the following seek to the last key re-uses that iterator *)
           if bi < Array.length seps && compare seps.(bi) last > 0 then begin
             bump acc "separator_gap_histories";
             hist Iter [ Seek seps.(bi); Seek last; Next; Next ];
             hist Iter [ Next; Seek seps.(bi); Seek last; Next; Next ];
             hist (Range ("", "\xff\xff\xff")) [ Seek seps.(bi); Seek last; Next ]
           end;
           hist Iter (nexts (!pos + n) @ [ Seek last; Next; Next ]);
           hist Iter (nexts (!pos + n + 1) @ [ Seek last; Next; Next ]);
           hist (Range ("", "\xff\xff\xff")) [ Seek (last ^ "\000"); Seek last; Next; Next ];
           if n >= 2 then hist Iter [ Seek (List.nth keys (n - 2)); Next; Next; Seek last; Next; Next ];
           if bi = nblk - 1 then begin
             hist Iter [ Seek "\xff\xff\xff\xff"; Next; Seek last; Next; Next ];
             hist (Prefix "") [ Seek "\xff\xff\xff\xff"; Seek last; Next; Next ]
           end
         end;
         pos := !pos + n) !block_keys;
       (* the defect repaired by the fix: iterate across a block boundary, seek back *)
       if Array.length esa >= 6 then begin
         hist Iter (nexts (Array.length esa / 2 + 1) @ [ Seek (fst esa.(1)); Next; Next; Seek (fst esa.(0)); Next ]);
         hist Iter [ Next; Next; Seek (fst esa.(1)); Next; Seek (fst esa.(Array.length esa - 1)); Next; Next; Seek ""; Next ]
       end);
    c_reader_destroy r
  end

(* exhaustive (position, target) pairs on a small table: reach every position by next^i, then seek every target *)
let exhaustive_pairs acc ~props ~table_json ~path ~file ~(es : (string * string) list) =
  let esa = Array.of_list es in
  let r = c_reader_init path false false in
  if r <> 0n then begin
    let src = c_reader_source r in
    (match model_open acc ~props ~table_json file ~verify:false with
     | None -> ()
     | Some rd ->
       let qs = query_set esa (index_keys rd) in
       for i = 0 to Array.length esa + 1 do
         Array.iter (fun t ->
           run_history acc ~props ~table_json ~es:esa ~src ~rd Iter (nexts i @ [ Seek t; Next; Next ]);
           bump acc "position_target_pairs") qs
       done;
       (* positions reached by a seek *)
       Array.iter (fun t0 -> Array.iter (fun t ->
           run_history acc ~props ~table_json ~es:esa ~src ~rd Iter [ Seek t0; Next; Seek t; Next; Next ];
           bump acc "position_target_pairs") qs) qs);
    c_reader_destroy r
  end

let write_file path s = let oc = open_out_bin path in output_string oc s; close_out oc
let read_file path = let ic = open_in_bin path in let n = in_channel_length ic in let s = really_input_string ic n in close_in ic; s

(* ---- a block above 4 GiB (64-bit restart array), as a sparse file --------------------------
   Not representable in the list-based model; the implementation is compared with the
   specification directly.  Two entries with 2 GiB values (holes) push the entry area over
   UINT32_MAX; eight small entries follow, each at its own restart point beyond the 4 GiB mark. *)
(* [entries_target]: None = entry region above 4 GiB (64-bit restart array); Some n = entry region of exactly n bytes,
   n just below 4 GiB: the restart array is still 32-bit although the whole block (entries + restart array + count)
   exceeds UINT32_MAX - the width is decided by the entry region alone *)
let big_block_case ?entries_target acc =
  let path = Filename.concat (Wr.tmpdir ()) (Printf.sprintf "rd_big_%d.mtbl" (Unix.getpid ())) in
  let table_json () = JO [ "source", JS "independent encoder, sparse file";
                           "layout", JS (match entries_target with
                               | None -> "one uncompressed v2 data block: a->2GiB zeros, b->2GiB zeros, c0..c7 -> v0..v7; restart points at a and at every c_i; 64-bit restart array"
                               | Some n -> Printf.sprintf "one uncompressed v2 data block whose entry region is %d bytes (just below 4 GiB): a->2GiB zeros, b->zeros, c0..c7; restart points at a and at every c_i; 32-bit restart array, block larger than UINT32_MAX" n) ] in
  let big = 0x80000000 in
  let small = List.init 8 (fun i -> (Printf.sprintf "c%d" i, Printf.sprintf "v%d" i)) in
  let ok = (try
    let fd = Unix.openfile path [ Unix.O_RDWR; Unix.O_CREAT; Unix.O_TRUNC ] 0o600 in
    let pos = ref 0 in
    let put s = ignore (Unix.LargeFile.lseek fd (Int64.of_int !pos) Unix.SEEK_SET);
      ignore (Unix.write_substring fd s 0 (String.length s)); pos := !pos + String.length s in
    let skip n = pos := !pos + n in
    (* sizes first *)
    let ehdr k vlen = Enc.varint 0 ^ Enc.varint (String.length k) ^ Enc.varint vlen ^ k in
    let small_len = List.fold_left (fun a (k, v) -> a + String.length (ehdr k (String.length v)) + String.length v) 0 small in
    let e_a = ehdr "a" big in
    let bigb = (match entries_target with None -> big | Some n -> n - (String.length e_a + big + 8 + small_len)) in
    let e_b = ehdr "b" bigb in
    let entries_len = String.length e_a + big + String.length e_b + bigb + small_len in
    (match entries_target with Some n -> assert (entries_len = n) | None -> ());
    let nr = 1 + List.length small in
    let w = if entries_len > 0xFFFFFFFF then 8 else 4 in
    let blen = entries_len + w * nr + 4 in
    let hdr = Enc.varint blen ^ Enc.le 4 0 in
    put hdr;
    let base = !pos in
    let restarts = ref [ 0 ] in
    put e_a; skip big; put e_b; skip bigb;
    List.iter (fun (k, v) -> restarts := (!pos - base) :: !restarts; put (ehdr k (String.length v)); put v) small;
    List.iter (fun r -> put (Enc.le w r)) (List.rev !restarts);
    put (Enc.le 4 nr);
    let ibo = !pos in
    let iraw = Enc.varint 0 ^ Enc.varint 2 ^ Enc.varint 1 ^ "c7" ^ Enc.varint 0 ^ Enc.le 4 0 ^ Enc.le 4 1 in
    let ifr = Enc.frame ~version:2 iraw in
    put ifr;
    let fields = [ ibo; 8192; 0; 10; 1; ibo; String.length ifr; 18; big + bigb + 16 ] in
    List.iter (fun f -> put (Enc.le 8 f)) fields;
    put (String.make (512 - 72 - 4) '\000'); put (Enc.le 4 0x4D54424C);
    Unix.close fd; true
  with _ -> false) in
  if not ok then bump acc "big_block_skipped(no sparse file)"
  else begin
    let kname = (match entries_target with None -> "big_block_64bit_restarts" | Some _ -> "big_block_just_below_4GiB_32bit_restarts") in
    bump acc kname;
    record acc ~key:kname ~nontrivial:true ~klass:kname (lazy (table_json ()));
    (match with_child_acc acc (fun a ->
       let r = c_reader_init path false false in
       if r = 0n then fail a ~kind:"spec_violation" ~what:"[C11] reader does not open a well-formed table whose data block exceeds 4 GiB" (table_json ())
       else begin
         let src = c_reader_source r in
         let expect what got exp =
           if got <> exp then fail a ~kind:"spec_violation"
               ~what:(Printf.sprintf "[C11] block around 4 GiB (restart array width decided by the entry region): %s returns %s, expected %s" what (show_e got) (show_e exp)) (table_json ()) in
         List.iteri (fun i (k, v) ->
           let g = impl_create src (Get k) in
           expect ("get " ^ k) (fst (impl_step g Next)) (Some (k, v)); impl_destroy g;
           (* seek from the start of the block, then continue in order *)
           let it = impl_create src Iter in
           ignore (impl_step it (Seek k));
           expect ("seek " ^ k ^ "; next") (fst (impl_step it Next)) (Some (k, v));
           expect ("seek " ^ k ^ "; next; next") (fst (impl_step it Next)) (if i + 1 < 8 then Some (List.nth small (i + 1)) else None);
           (* backwards from there *)
           ignore (impl_step it (Seek "c0"));
           expect ("seek back to c0; next") (fst (impl_step it Next)) (Some (List.hd small));
           impl_destroy it;
           let p = impl_create src (Prefix "c") in
           for _ = 1 to i do ignore (impl_step p Next) done;
           expect (Printf.sprintf "get_prefix c, entry %d" i) (fst (impl_step p Next)) (Some (k, v)); impl_destroy p) small;
         let g = impl_create src (Get "bb") in expect "get bb (absent)" (fst (impl_step g Next)) None; impl_destroy g;
         c_reader_destroy r
       end) with
     | None -> ()
     | Some sg -> fail acc ~kind:"spec_violation" ~what:(Printf.sprintf "[C11] the reader stopped (signal %d) on a well-formed table whose data block exceeds 4 GiB" sg) (table_json ()))
  end;
  (try Sys.remove path with _ -> ())

let run ~tier ~seed ~only acc =
  let idx = ref 0 in
  let want () = cur_index := !idx; (match only with None -> true | Some i -> i = !idx) in
  let path = Filename.concat (Wr.tmpdir ()) (Printf.sprintf "rd_%d.mtbl" (Unix.getpid ())) in
  (* ---- tables written by the real writer ---- *)
  let from_writer st ~klass (c : wcfg) (es : (string * string) list) =
    let c = { c with prefix = (if Int64.compare c.prefix 65536L < 0 then c.prefix else 0L) } in
    let table_json () = JO [ "source", JS "real writer"; "cfg", cfg_json c; "entries", entries_json es ] in
    (match Wr.run_impl c es path with
     | Exited (_, s) when String.length s > 8 ->
       (* the table is read in place: a foreign prefix stays in front of it (offsets in the file are absolute) *)
       let file = read_file path in
       if Int64.compare c.prefix 0L > 0 then bump acc "tables_with_foreign_prefix";
       (match with_child_acc acc (fun a -> check_table a st ~props:"[C01,C02,C03]" ~klass ~table_json ~path ~file ~es ~with_dump:(rint st 3 = 0 || klass = "binary_keys_dump") ~tier) with
        | None -> ()
        | Some sg -> fail acc ~kind:"spec_violation" ~what:(Printf.sprintf "[C01,C02,C03] the reader stopped (signal %d) while iterating / querying a table written by the writer" sg) (table_json ()))
     | _ -> fail acc ~kind:"model_mismatch" ~what:"[C01] writer run failed" (table_json ()));
    (try Sys.remove path with _ -> ()) in
  let base = { comp = 0; level = None; block_size = Some 1024; interval = None; pool = 0; prefix = 0L } in
  (* directed: the shapes behind the repaired defects and the sub-agents' findings *)
  let k12 = List.init 12 (fun i -> (Printf.sprintf "k%02d" i, String.make 300 (Char.chr (97 + i)))) in
  let directed = [
    ("f1_shape", base, k12);
    ("single_empty_entry", base, [ ("", "") ]);
    ("empty_entry_then_big", base, [ ("", ""); ("big", String.make 2000 'B') ]);
    ("fast_path_128", base, [ ("", String.make 128 'v'); ("b", String.make 256 'w'); (String.make 128 'c', "x"); ("d", String.make 16384 'y') ]);
    ("sep_gap", { base with interval = Some 2 },
     List.map (fun k -> (k, String.make 400 '1'))
       (List.sort_uniq compare (List.concat_map (fun (a, b) -> [ a; b ]) sep_pairs)));
    ("empty_table", base, []);
    ("binary_keys_dump", base, [ ("a", "v\000w"); ("a\000b", "v\000x"); ("a\000bd", "v"); ("a\000c", "\000"); ("ab", "v\000wz"); ("b\000\000", "\000\000y"); ("b\000\001", "") ]);
    ("binary_keys_dump", base, List.init 256 (fun i -> (Printf.sprintf "k%c" (Char.chr i), Printf.sprintf "v%c%c" (Char.chr (255 - i)) (Char.chr i))));
    ("restart_interval_1", { base with interval = Some 1 }, k12);
    ("restart_interval_3_zstd", { base with interval = Some 3; comp = 5 }, k12);
  ] in
  List.iter (fun (klass, c, es) ->
    if want () then from_writer (case_rng ~seed ~engine ~index:!idx) ~klass c es; incr idx) directed;
  (* lookups around every separator pair, the cut forced between the two keys *)
  List.iter (fun (a, b) ->
    if want () then from_writer (case_rng ~seed ~engine ~index:!idx) ~klass:"sep_pair_at_cut" base [ (a, String.make 1100 'v'); (b, "w"); (b ^ "\xff", "x") ];
    incr idx) sep_pairs;
  let n = if tier = "thorough" then 400 else 36 in
  for _ = 1 to n do
    if want () then begin
      let st = case_rng ~seed ~engine ~index:!idx in
      let c = { (rcfg st ~allow_pool:false) with prefix = (if rint st 4 = 0 then Int64.of_int (rrange st 1 300) else 0L) } in
      (match rint st 3 with
       | 0 -> from_writer st ~klass:"writer_sorted_family" c (rentries_sorted st ~big:(rint st 8 = 0) ~maxn:40)
       | _ -> from_writer st ~klass:"writer_multi_block" c (rentries_blocks st ~nkeys:(rrange st 3 60) ~vlen:(rrange st 0 400)))
    end;
    incr idx
  done;
  (* ---- tables from the independent encoder (C11) ---- *)
  let from_encoder st ~klass (lay : Enc.layout) es ~exhaustive =
    let table_json () = JO [ "source", JS "independent encoder"; "version", JI lay.Enc.version; "comp", JI lay.Enc.comp;
                             "cuts", JL (List.map (fun c -> JI c) lay.Enc.cuts); "restart_every", JI lay.Enc.restart_every;
                             "max_share", JB lay.Enc.max_share; "sep_choice", JI lay.Enc.sep_choice; "entries", entries_json es ] in
    (match Enc.build_file st ~compress:(fun alg raw -> Wr.c_compress alg false 0 raw) lay es with
     | None -> bump acc "encoder_compress_failed"
     | Some file ->
       (* the generator is itself judged by the extracted independent decoder (format v2 only) *)
       let gen_ok = if lay.Enc.version = 2 && lay.Enc.prefix = "" then
           (match parse_table dec N0 (nl_of_string file) with
            | Inr t -> List.map (fun (k, v) -> (string_of_nl k, string_of_nl v)) (table_entries t) = es
            | Inl _ -> false) else true in
       if not gen_ok then acc.notes <- ("encoder_output_rejected_by_decoder", table_json ()) :: acc.notes
       else begin
         write_file path file;
         (match with_child_acc acc (fun a ->
              check_table a st ~props:"[C11]" ~klass ~table_json ~path ~file ~es ~with_dump:false ~tier;
              if exhaustive then exhaustive_pairs a ~props:"[C03,C11]" ~table_json ~path ~file ~es) with
          | None -> ()
          | Some sg -> fail acc ~kind:"spec_violation" ~what:(Printf.sprintf "[C11,C03] the reader stopped (signal %d) on a well-formed table from the independent encoder" sg) (table_json ()))
       end);
    (try Sys.remove path with _ -> ()) in
  let ne = if tier = "thorough" then 500 else 40 in
  for _ = 1 to ne do
    if want () then begin
      let st = case_rng ~seed ~engine ~index:!idx in
      let es = (if rbool st then rentries_sorted st ~big:false ~maxn:30 else rentries_blocks st ~nkeys:(rrange st 1 40) ~vlen:(rrange st 0 60)) in
      let lay = { Enc.version = (if rint st 3 = 0 then 1 else 2);
                  comp = (if rint st 3 = 0 then rrange st 1 5 else 0);
                  cuts = List.init 30 (fun _ -> rrange st 1 (max 1 (rrange st 1 9)));
                  restart_every = (match rint st 4 with 0 -> 0 | 1 -> 1 | 2 -> 1000 | _ -> rrange st 2 5);
                  max_share = rbool st; prefix = ""; sep_choice = rint st 2 } in
      from_encoder st ~klass:(Printf.sprintf "encoder_v%d" lay.Enc.version) lay es ~exhaustive:false
    end;
    incr idx
  done;
  (* small-scope exhaustive (position, target) enumeration: <= 12 entries, 1..4 blocks, restart 1..5 *)
  let nx = if tier = "thorough" then 60 else 2 in
  for _ = 1 to nx do
    if want () then begin
      let st = case_rng ~seed ~engine ~index:!idx in
      let nk = if tier = "thorough" then rrange st 2 12 else rrange st 2 7 in
      let es = List.init nk (fun i -> (Printf.sprintf "k%02d" (2 * i) ^ (if rint st 4 = 0 then "x" else ""), String.make (rint st 4) 'v')) in
      let nb = rrange st 1 4 in
      let lay = { Enc.version = 2; comp = 0; cuts = List.init 4 (fun _ -> max 1 (nk / nb));
                  restart_every = rrange st 1 5; max_share = true; prefix = ""; sep_choice = rint st 2 } in
      from_encoder st ~klass:"small_scope_exhaustive" lay es ~exhaustive:true
    end;
    incr idx
  done;
  (* ---- tables from the independent encoder written in Gallina (spec/Encode.v, extracted): the files the
     theorems T11c_* speak about.  Every legal layout choice is drawn at random: version, foreign prefix,
     compression, cuts, restart sets, amount of sharing (<= common prefix), separators, index layout ---- *)
  let from_coq_encoder st ~klass (es : (string * string) list) =
    let lcp a b = let n = min (String.length a) (String.length b) in let i = ref 0 in while !i < n && a.[!i] = b.[!i] do incr i done; !i in
    let version = if rint st 3 = 0 then V1 else V2 in
    let comp = if rint st 3 = 0 then rrange st 1 5 else 0 in
    let prefix = if rint st 3 = 0 then rbytes st (rrange st 1 300) else "" in
    let restart_mode = rint st 4 in
    let choices (keys : string list) : n option list =
      let prev = ref "" in
      List.mapi (fun i k ->
        let c = if i = 0 then None
          else if (match restart_mode with 0 -> rint st 3 = 0 | 1 -> true | 2 -> false | _ -> i mod (2 + rint st 3) = 0) then None
          else (let l = lcp !prev k in Some (n_of_int (if rbool st || l = 0 then l else rint st (l + 1)))) in
        prev := k; c) keys in
    (* cut the entries into non-empty blocks *)
    let rec cut l = match l with
      | [] -> []
      | _ -> let n = min (List.length l) (rrange st 1 (max 1 (rrange st 1 9))) in
        let rec take k l acc = if k = 0 then (List.rev acc, l) else (match l with x :: r -> take (k - 1) r (x :: acc) | [] -> (List.rev acc, [])) in
        let (h, r) = take n l [] in h :: cut r in
    let blocks = cut es in
    let nb = List.length blocks in
    let seps = List.mapi (fun i blk ->
      let last = fst (List.nth blk (List.length blk - 1)) in
      if i + 1 < nb then (if rbool st then last else Enc.separator st last (fst (List.hd (List.nth blocks (i + 1)))))
      else (if rint st 3 = 0 then last ^ "\001" else last)) blocks in
    let lay = { l_version = version; l_prefix = nl_of_string prefix; l_comp = n_of_int comp; l_block_size = n_of_int (rrange st 1024 65536);
                l_blocks = List.map2 (fun blk sep -> (choices (List.map fst blk), nl_of_string sep)) blocks seps;
                l_index = choices seps } in
    let compress alg raw = (match Wr.c_compress (int_of_n alg) false 0 (string_of_nl raw) with Some z -> Some (nl_of_string z) | None -> None) in
    let ces = List.map (fun (k, v) -> (nl_of_string k, nl_of_string v)) es in
    let table_json () = JO [ "source", JS "Gallina encoder spec/Encode.v (extracted)"; "version", JI (match version with V1 -> 1 | V2 -> 2); "comp", JI comp;
                             "prefix_len", JI (String.length prefix); "blocks", JL (List.map (fun b -> JI (List.length b)) blocks);
                             "restart_mode", JI restart_mode; "entries", entries_json es ] in
    if not (layout_ok compress lay ces) then acc.notes <- ("generated_layout_not_legal", table_json ()) :: acc.notes
    else (match encode_table compress lay ces with
        | None -> bump acc "encoder_compress_failed"
        | Some f ->
          let file = string_of_nl f in
          bump acc (Printf.sprintf "coq_encoder_blocks=%d" (min nb 6));
          if prefix <> "" then bump acc "coq_encoder_foreign_prefix";
          write_file path file;
          (match with_child_acc acc (fun a -> check_table a st ~props:"[C11]" ~klass ~table_json ~path ~file ~es ~with_dump:false ~tier) with
           | None -> ()
           | Some sg -> fail acc ~kind:"spec_violation" ~what:(Printf.sprintf "[C11,C03] the reader stopped (signal %d) on a well-formed table from the Gallina encoder" sg) (table_json ())));
    (try Sys.remove path with _ -> ()) in
  let nc = if tier = "thorough" then 500 else 40 in
  for _ = 1 to nc do
    if want () then begin
      let st = case_rng ~seed ~engine ~index:!idx in
      let es = (if rbool st then rentries_sorted st ~big:false ~maxn:30 else rentries_blocks st ~nkeys:(rrange st 1 40) ~vlen:(rrange st 0 60)) in
      from_coq_encoder st ~klass:"gallina_encoder" es
    end;
    incr idx
  done;
  if want () then big_block_case acc;
  incr idx;
  (* entry region 8 bytes short of 2^32 - 1: with 9 restarts the block itself is larger than UINT32_MAX *)
  if want () then big_block_case ~entries_target:(0xFFFFFFFF - 8) acc;
  incr idx;
  if want () then big_block_case ~entries_target:0xFFFFFFFF acc;
  incr idx
