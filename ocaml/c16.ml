(* C16: varint and fixed-width codecs.  impl vs extracted model (primary) and
   impl vs an independent OCaml reference of LEB128 / little-endian + the
   round-trip law (the search that decides whether a break is a real violation). *)
open Common
open Mtbl_model
type string = Stdlib.String.t

external c_enc32 : int64 -> string = "vp_varint_encode32"
external c_enc64 : int64 -> string = "vp_varint_encode64"
external c_dec32 : string -> int64 * int = "vp_varint_decode32"
external c_dec64 : string -> int64 * int = "vp_varint_decode64"
external c_vlen : int64 -> int = "vp_varint_length"
external c_vlenp : string -> int = "vp_varint_length_packed"
external c_vlenp_tail : string -> int -> int = "vp_varint_length_packed_tail"
external c_fenc : int -> int64 -> int -> string = "vp_fixed_encode"
external c_fdec : int -> string -> int -> int64 = "vp_fixed_decode"

(* independent reference (not extracted): standard LEB128 on unsigned 64-bit *)
let ref_leb (v : int64) : string =
  let b = Buffer.create 10 in
  let rec go v =
    if Int64.unsigned_compare v 128L < 0 then Buffer.add_char b (Char.chr (Int64.to_int v))
    else begin
      Buffer.add_char b (Char.chr (128 lor (Int64.to_int (Int64.logand v 127L))));
      go (Int64.shift_right_logical v 7)
    end in
  go v; Buffer.contents b
let ref_le nbytes (v : int64) : string =
  String.init nbytes (fun i -> Char.chr (Int64.to_int (Int64.logand (Int64.shift_right_logical v (8 * i)) 255L)))

let engine = "c16"
let rule = "values: every v within +-3 of each 2^(7k) and 2^k, walking ones/zeros, random 32/64-bit values; byte strings: truncated, over-long (all-continuation), random; fixed codecs at alignments 0..7. A case is non-trivial when the value needs >= 2 varint bytes or the byte string has >= 2 bytes; distinctness by (operation, value/bytes)."

let u64s v = Printf.sprintf "%Lu" v

let check_value acc klass (v : int64) =
  let is32 = Int64.unsigned_compare v 0x100000000L < 0 in
  let case = lazy (JO [ "op", JS "value"; "v", JS (u64s v) ]) in
  record acc ~key:("v" ^ u64s v) ~nontrivial:(Int64.unsigned_compare v 128L >= 0) ~klass case;
  let nv = n_of_u64 v in
  (* implementation *)
  let e64 = c_enc64 v in
  let (d64, l64) = c_dec64 (e64 ^ "\x05\x85") in
  let vl = c_vlen v in
  let vlp = c_vlenp (e64 ^ "\x7f") in
  (* model *)
  let m_e64 = string_of_nl (varint_encode64 nv) in
  let m_vl = int_of_n (varint_length nv) in
  let m_vlp = int_of_n (varint_length_packed (varint_encode64 nv @ [n_of_int 127])) in
  let mism what impl model =
    fail acc ~kind:"model_mismatch" ~what
      (JO [ "v", JS (u64s v); "impl", JS impl; "model", JS model ]) in
  let viol what detail =
    fail acc ~kind:"spec_violation" ~what (JO [ "v", JS (u64s v); "detail", JS detail ]) in
  if e64 <> m_e64 then mism "varint_encode64 bytes" (hex e64) (hex m_e64);
  if vl <> m_vl then mism "varint_length" (string_of_int vl) (string_of_int m_vl);
  if vlp <> m_vlp then mism "varint_length_packed" (string_of_int vlp) (string_of_int m_vlp);
  (match varint_decode64 (nl_of_string (e64 ^ "\x05\x85")) with
   | Ok (mv, ml) ->
     if u64_of_n mv <> d64 || int_of_n ml <> l64 then
       mism "varint_decode64" (Printf.sprintf "(%s,%d)" (u64s d64) l64)
         (Printf.sprintf "(%s,%d)" (u64s (u64_of_n mv)) (int_of_n ml))
   | _ -> mism "varint_decode64" (Printf.sprintf "(%s,%d)" (u64s d64) l64) "not Ok");
  (* spec on the implementation *)
  let r = ref_leb v in
  if e64 <> r then viol "encode64 is not standard base-128" (hex e64 ^ " expected " ^ hex r);
  if d64 <> v || l64 <> String.length e64 then
    viol "decode64(encode64 v) <> (v, count)" (Printf.sprintf "got (%s,%d)" (u64s d64) l64);
  if vl <> String.length r then viol "varint_length <> byte count" (string_of_int vl);
  if vlp <> String.length r then viol "varint_length_packed <> byte count" (string_of_int vlp);
  if is32 then begin
    let e32 = c_enc32 v in
    let (d32, l32) = c_dec32 (e32 ^ "\x81\x01") in
    let m_e32 = string_of_nl (varint_encode32 nv) in
    if e32 <> m_e32 then mism "varint_encode32 bytes" (hex e32) (hex m_e32);
    (match varint_decode32 (nl_of_string (e32 ^ "\x81\x01")) with
     | Ok (mv, ml) ->
       if u64_of_n mv <> d32 || int_of_n ml <> l32 then
         mism "varint_decode32" (Printf.sprintf "(%s,%d)" (u64s d32) l32)
           (Printf.sprintf "(%s,%d)" (u64s (u64_of_n mv)) (int_of_n ml))
     | _ -> mism "varint_decode32" (Printf.sprintf "(%s,%d)" (u64s d32) l32) "not Ok");
    if e32 <> r then viol "encode32 is not standard base-128" (hex e32 ^ " expected " ^ hex r);
    if d32 <> v || l32 <> String.length e32 then
      viol "decode32(encode32 v) <> (v, count)" (Printf.sprintf "got (%s,%d)" (u64s d32) l32)
  end;
  (* fixed-width, all alignments *)
  for a = 0 to 7 do
    let f64 = c_fenc 64 v a in
    if f64 <> string_of_nl (fixed_encode64 nv) then mism "fixed_encode64" (hex f64) (hex (string_of_nl (fixed_encode64 nv)));
    if f64 <> ref_le 8 v then viol "fixed_encode64 not little-endian" (hex f64);
    if c_fdec 64 f64 a <> v then viol "fixed_decode64(fixed_encode64 v) <> v" (Printf.sprintf "align %d" a);
    (match fixed_decode64 (nl_of_string f64) with
     | Some m -> if u64_of_n m <> c_fdec 64 f64 a then mism "fixed_decode64" (u64s (c_fdec 64 f64 a)) (u64s (u64_of_n m))
     | None -> mism "fixed_decode64" "value" "None");
    if is32 then begin
      let f32 = c_fenc 32 v a in
      if f32 <> string_of_nl (fixed_encode32 nv) then mism "fixed_encode32" (hex f32) (hex (string_of_nl (fixed_encode32 nv)));
      if f32 <> ref_le 4 v then viol "fixed_encode32 not little-endian" (hex f32);
      if c_fdec 32 f32 a <> v then viol "fixed_decode32(fixed_encode32 v) <> v" (Printf.sprintf "align %d" a);
      (match fixed_decode32 (nl_of_string f32) with
       | Some m -> if u64_of_n m <> c_fdec 32 f32 a then mism "fixed_decode32" (u64s (c_fdec 32 f32 a)) (u64s (u64_of_n m))
       | None -> mism "fixed_decode32" "value" "None")
    end
  done

(* arbitrary byte strings through the decoders and length_packed *)
let check_bytes acc klass (s : string) =
  let case = lazy (JO [ "op", JS "bytes"; "hex", JS (hex s) ]) in
  record acc ~key:("b" ^ s) ~nontrivial:(String.length s >= 2) ~klass case;
  let l = nl_of_string s in
  let mism what impl model =
    fail acc ~kind:"model_mismatch" ~what (JO [ "hex", JS (hex s); "impl", JS impl; "model", JS model ]) in
  let vlp = c_vlenp s in
  let m_vlp = int_of_n (varint_length_packed l) in
  if vlp <> m_vlp then mism "varint_length_packed" (string_of_int vlp) (string_of_int m_vlp);
  (* spec: 0 when no terminating byte, else index of the first byte < 128, plus 1 *)
  let exp = (let r = ref 0 in (try String.iteri (fun i c -> if Char.code c < 128 then (r := i + 1; raise Exit)) s with Exit -> ()); !r) in
  if vlp <> exp then fail acc ~kind:"spec_violation" ~what:"varint_length_packed" (JO [ "hex", JS (hex s); "got", JI vlp; "expected", JI exp ]);
  (* the result depends on the len_data bytes given only: the same with terminating bytes (0x05, 0x7f, 0x00) behind the buffer *)
  List.iter (fun tail ->
    let v = c_vlenp_tail s tail in
    if v <> exp then fail acc ~kind:"spec_violation" ~what:"varint_length_packed depends on a byte behind the buffer it was given"
        (JO [ "hex", JS (hex s); "byte_behind", JI tail; "got", JI v; "expected", JI exp ])) [ 0x05; 0x7f; 0x00 ];
  (* decoders: only when the model says the read stays inside the string *)
  (match varint_decode64 l with
   | Ok (mv, ml) ->
     let (d, n) = c_dec64 s in
     if d <> u64_of_n mv || n <> int_of_n ml then
       mism "varint_decode64" (Printf.sprintf "(%s,%d)" (u64s d) n) (Printf.sprintf "(%s,%d)" (u64s (u64_of_n mv)) (int_of_n ml))
   | Oob -> bump acc "model_says_oob64"
   | _ -> mism "varint_decode64" "?" "Fail/Abort");
  (match varint_decode32 l with
   | Ok (mv, ml) ->
     let (d, n) = c_dec32 s in
     if d <> u64_of_n mv || n <> int_of_n ml then
       mism "varint_decode32" (Printf.sprintf "(%s,%d)" (u64s d) n) (Printf.sprintf "(%s,%d)" (u64s (u64_of_n mv)) (int_of_n ml))
   | Oob -> bump acc "model_says_oob32"
   | _ -> mism "varint_decode32" "?" "Fail/Abort")

let directed_values () =
  let l = ref [] in
  let add v = l := v :: !l in
  for k = 0 to 63 do
    let p = Int64.shift_left 1L k in
    List.iter (fun d -> add (Int64.add p d)) [ -3L; -2L; -1L; 0L; 1L; 2L; 3L ]
  done;
  add 0L; add (-1L); add (-2L); add 0xdeadbeefL; add 0xdebf7eefL;
  (* walking ones / zeros *)
  for k = 0 to 63 do
    add (Int64.shift_left 1L k); add (Int64.lognot (Int64.shift_left 1L k));
    add (Int64.shift_right_logical (-1L) k)
  done;
  (* 7-bit groups all different: catches a shifted/duplicated group *)
  add 0x0102040810204081L; add 0x8142241881422418L; add 0x7654321076543210L;
  add 0x12345678L; add 0x89abcdefL; add 0xfedcba98L; add 0x0fedcba987654321L;
  List.rev !l

let run ~tier ~seed ~only acc =
  let idx = ref 0 in
  let want () = cur_index := !idx; (match only with None -> true | Some i -> i = !idx) in
  List.iter (fun v -> if want () then check_value acc "directed_value" v; incr idx) (directed_values ());
  (* directed byte strings *)
  let dbytes = [ ""; "\x80"; "\x80\x80"; "\xff\xff\xff\xff"; "\xff\xff\xff\xff\xff"; "\xff\xff\xff\xff\xff\x00";
                 "\x80\x80\x80\x80\x80\x80\x80\x80\x80"; "\x80\x80\x80\x80\x80\x80\x80\x80\x80\x80";
                 "\x80\x80\x80\x80\x80\x80\x80\x80\x80\x01"; "\xff\xff\xff\xff\xff\xff\xff\xff\xff\x7f";
                 "\x80\x80\x80\x80\x80\x80\x80\x80\x80\x80\x01"; "\xff\xff\xff\xff\x7f"; "\xff\xff\xff\xff\x1f\x01";
                 "\x00"; "\x7f"; "\x80\x00"; "\x81\x80\x00" ] in
  List.iter (fun s -> if want () then check_bytes acc "directed_bytes" s; incr idx) dbytes;
  let nrand = if tier = "thorough" then 2_000_000 else 40_000 in
  for _ = 1 to nrand do
    if want () then begin
      let st = case_rng ~seed ~engine ~index:!idx in
      (match rint st 6 with
       | 0 -> check_value acc "random_u64" (ru64 st)
       | 1 -> check_value acc "random_u32" (Int64.logand (ru64 st) 0xffffffffL)
       | 2 -> (* random bit length *)
         let k = rrange st 1 64 in
         let v = Int64.shift_right_logical (ru64 st) (64 - k) in
         check_value acc "random_bitlen" v
       | 3 -> check_bytes acc "random_bytes" (rbytes st (rrange st 0 12))
       | 4 -> (* mostly-continuation strings of random length *)
         let n = rrange st 0 12 in
         check_bytes acc "random_cont_bytes" (String.init n (fun i -> Char.chr (if i = n - 1 && rbool st then rint st 128 else 128 + rint st 128)))
       | _ -> (* valid encoding, truncated or extended *)
         let e = ref_leb (ru64 st) in
         let cut = rrange st 0 (String.length e) in
         check_bytes acc "truncated_encoding" (String.sub e 0 cut))
    end;
    incr idx
  done
