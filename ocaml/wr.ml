(* Engine "wr": the writer.  Runs the real writer (in a forked child, so that an
   assert does not kill the driver) and the model writer on the same
   configuration and add sequence, and judges the implementation's file with the
   extracted independent decoder (spec/Parse.v).  Serves C08, C09, C10 (and the
   writer half of C01). *)
open Common
open Mtbl_model
type string = Stdlib.String.t
open Gen

external c_compress : int -> bool -> int -> string -> string option = "vp_compress"
external c_decompress : int -> string -> string option = "vp_decompress"
external c_pool_init : int -> nativeint = "vp_pool_init"
external c_pool_destroy : nativeint -> unit = "vp_pool_destroy"
external c_writer_init_fd : int -> (int * bool * int * bool * int * bool * int * nativeint) -> nativeint = "vp_writer_init_fd"
external c_writer_init : string -> nativeint = "vp_writer_init"
external c_writer_add : nativeint -> string -> string -> bool = "vp_writer_add"
external c_writer_destroy : nativeint -> unit = "vp_writer_destroy"
external c_open_rw : string -> bool -> int = "vp_open_rw"
external c_close : int -> unit = "vp_close"
external c_lseek_set : int -> int64 -> int64 = "vp_lseek_set"
external c_write_str : int -> string -> int = "vp_write_str"
external c_file_size : int -> int64 = "vp_file_size"
external c_pread : int -> int64 -> int -> string = "vp_pread"
external c_reader_init : string -> bool -> bool -> nativeint = "vp_reader_init"
external c_reader_destroy : nativeint -> unit = "vp_reader_destroy"
external c_reader_metadata : nativeint -> int64 array = "vp_reader_metadata"
external c_reader_source : nativeint -> nativeint = "vp_reader_source"
external c_source_iter : nativeint -> nativeint = "vp_source_iter"
external c_iter_next : nativeint -> (string * string) option = "vp_iter_next"
external c_iter_destroy : nativeint -> unit = "vp_iter_destroy"

let engine = "wr"
let rule = "cases = (writer configuration, add sequence): configurations over 6 compression types x default/explicit levels x block sizes (unset, clamped, 1024..4096) x restart intervals (unset,0,1,2,3,16,random) x pool 0..4 x foreign prefix (0, small, sparse > 4 GiB); add sequences: sorted families with shared prefixes / prefixes / extensions / empty key / binary bytes / separator-branch pairs / 128- and 16384-byte lengths, fixed-size runs that cut several blocks, entries sized to hit the cut test exactly and +-1, unsorted sequences with duplicates, smaller keys and proper prefixes. Non-trivial: at least 2 accepted entries; distinct by (configuration, sequence)."

let tmpdir () =
  let d = Filename.concat (try Sys.getenv "VERIF_BUILD" with Not_found -> "/verif/build") "tmp" in
  (try Unix.mkdir d 0o755 with _ -> ()); d

let z_of_int i = if i = 0 then Z0 else if i > 0 then Zpos (pos_of_int i) else Zneg (pos_of_int (- i))
let rec int_of_z = function Z0 -> 0 | Zpos p -> int_of_pos p | Zneg p -> - (int_of_pos p)

(* oracles handed to the model: the implementation's own compression entry points *)
let oracle_compress_default (alg : n) (raw : n list) : n list res =
  match c_compress (int_of_n alg) false 0 (string_of_nl raw) with
  | Some s -> Ok (nl_of_string s) | None -> Fail
let oracle_compress_level (alg : n) (lvl : z) (raw : n list) : n list res =
  match c_compress (int_of_n alg) true (int_of_z lvl) (string_of_nl raw) with
  | Some s -> Ok (nl_of_string s) | None -> Fail
let oracle_decompress (alg : n) (s : n list) : n list res =
  match c_decompress (int_of_n alg) (string_of_nl s) with
  | Some r -> Ok (nl_of_string r) | None -> Fail

(* what mtbl_writer_options_* leave in the options structure *)
let model_opts (c : wcfg) : wopts =
  { wo_comp = (if c.comp < 0 then dEFAULT_COMPRESSION_TYPE else n_of_int c.comp);
    wo_level = (match c.level with None -> dEFAULT_COMPRESSION_LEVEL | Some l -> z_of_int l);
    wo_block_size = (match c.block_size with None -> dEFAULT_BLOCK_SIZE | Some b -> clamp_block_size (n_of_int b));
    wo_interval = (match c.interval with None -> dEFAULT_BLOCK_RESTART_INTERVAL | Some i -> clamp_restart_interval (n_of_int i)) }

type impl_out = {
  results : bool list;
  meta : int64 array;        (* through the accessors of a reader opened on the file; [||] if it does not open *)
  prefix_ok : bool;
}

let prefix_pattern n = String.init n (fun i -> Char.chr ((i * 7 + 3) land 255))

(* run the real writer; returns how the child ended and, via the file, the bytes *)
let run_impl (c : wcfg) (ops : (string * string) list) (path : string) : child_end =
  (try Sys.remove path with _ -> ());
  in_child (fun () ->
    let fd = c_open_rw path true in
    if fd < 0 then "OPENFAIL" else begin
      let small = Int64.compare c.prefix 65536L < 0 in
      if small then ignore (c_write_str fd (prefix_pattern (Int64.to_int c.prefix)))
      else ignore (c_lseek_set fd c.prefix);
      let pool = if c.pool > 0 then c_pool_init c.pool else 0n in
      let w = c_writer_init_fd fd
          (c.comp, (c.level <> None), (match c.level with Some l -> l | None -> 0),
           (c.block_size <> None), (match c.block_size with Some b -> b | None -> 0),
           (c.interval <> None), (match c.interval with Some i -> i | None -> 0), pool) in
      let results = List.map (fun (k, v) -> c_writer_add w k v) ops in
      c_writer_destroy w;
      if c.pool > 0 then c_pool_destroy pool;
      let prefix_ok = (not small) || (c_pread fd 0L (Int64.to_int c.prefix) = prefix_pattern (Int64.to_int c.prefix)) in
      c_close fd;
      let r = c_reader_init path false false in
      let meta = if r = 0n then [||] else (let m = c_reader_metadata r in c_reader_destroy r; m) in
      Marshal.to_string { results; meta; prefix_ok } []
    end)

(* open the finished file in place (foreign prefix included) with the real reader and iterate it *)
let read_back (path : string) : child_end =
  in_child (fun () ->
    let r = c_reader_init path false false in
    if r = 0n then "NOOPEN" else begin
      let it = c_source_iter (c_reader_source r) in
      let l = ref [] in
      let rec go () = (match c_iter_next it with Some e -> l := e :: !l; go () | None -> ()) in
      go (); c_iter_destroy it; c_reader_destroy r;
      "OK" ^ Marshal.to_string (List.rev !l) []
    end)

let read_table_region path (prefix : int64) : string =
  let fd = c_open_rw path false in
  let sz = c_file_size fd in
  let n = Int64.to_int (Int64.sub sz prefix) in
  let s = if n <= 0 then "" else c_pread fd prefix n in
  c_close fd; s

(* reference acceptance rule (property text): strictly greater than the last accepted key *)
let spec_accept (ops : (string * string) list) : bool list * (string * string) list =
  let last = ref None in
  let acc = ref [] in
  let rs = List.map (fun (k, v) ->
    let ok = (match !last with None -> true | Some l -> compare k l > 0) in
    if ok then (last := Some k; acc := (k, v) :: !acc);
    ok) ops in
  (rs, List.rev !acc)

let info_bin () = Filename.concat (try Sys.getenv "VERIF_BUILD" with Not_found -> "/verif/build") "bin/mtbl_info"

(* parse `mtbl_info` output (LC_ALL=C) into the same 10-slot layout as the accessors (version slot = -1) *)
(* the raw lines of mtbl_info (C locale) *)
let run_mtbl_info_raw path : string list =
  let cmd = Printf.sprintf "LC_ALL=C %s %s 2>/dev/null" (Filename.quote (info_bin ())) (Filename.quote path) in
  let ic = Unix.open_process_in cmd in
  let lines = ref [] in
  (try while true do lines := input_line ic :: !lines done with End_of_file -> ());
  ignore (Unix.close_process_in ic); List.rev !lines
let run_mtbl_info path : (string * string) list =
  let cmd = Printf.sprintf "LC_ALL=C %s %s 2>/dev/null" (Filename.quote (info_bin ())) (Filename.quote path) in
  let ic = Unix.open_process_in cmd in
  let lines = ref [] in
  (try while true do lines := input_line ic :: !lines done with End_of_file -> ());
  ignore (Unix.close_process_in ic);
  List.filter_map (fun l ->
    (* "label:   value (pct)" or "label   value" *)
    let l = String.trim l in
    if l = "" then None else
    let labels = [ "index block offset:"; "index bytes:"; "data block bytes"; "data block size:"; "data block count";
                   "entry count:"; "key bytes:"; "value bytes:"; "compression algorithm:" ] in
    List.fold_left (fun acc lab ->
      match acc with Some _ -> acc | None ->
        let ll = String.length lab in
        if String.length l >= ll && String.sub l 0 ll = lab then begin
          let rest = String.trim (String.sub l ll (String.length l - ll)) in
          let v = (match String.index_opt rest ' ' with Some i -> String.sub rest 0 i | None -> rest) in
          Some (lab, v)
        end else None) None labels) (List.rev !lines)

let comp_names = [| "none"; "snappy"; "zlib"; "lz4"; "lz4hc"; "zstd" |]

let check_case acc ~klass ~with_info (c : wcfg) (ops : (string * string) list) =
  let case = lazy (JO [ "cfg", cfg_json c; "ops", entries_json ops ]) in
  let (spec_rs, accepted) = spec_accept ops in
  record acc ~key:(json_to_string (Lazy.force case)) ~nontrivial:(List.length accepted >= 2) ~klass case;
  bump acc (Printf.sprintf "comp=%d" c.comp);
  if c.pool > 0 then bump acc "pooled";
  if Int64.compare c.prefix 0L > 0 then bump acc "foreign_prefix";
  if List.length accepted < List.length ops then bump acc "has_refused_add";
  let casej () = Lazy.force case in
  let mism props what impl model =
    fail acc ~kind:"model_mismatch" ~what:(props ^ " " ^ what) (JO [ "case", casej (); "impl", JS impl; "model", JS model ]) in
  let viol props what detail =
    fail acc ~kind:"spec_violation" ~what:(props ^ " " ^ what) (JO [ "case", casej (); "detail", JS detail ]) in
  let path = Filename.concat (tmpdir ()) (Printf.sprintf "wr_%d.mtbl" (Unix.getpid ())) in
  (* model *)
  let mo = model_opts c in
  let mres = writer_session oracle_compress_default oracle_compress_level mo (n_of_u64 c.prefix)
      (List.map (fun (k, v) -> (nl_of_string k, nl_of_string v)) ops) in
  (* implementation *)
  let iend = run_impl c ops path in
  (match iend, mres with
   | Signaled (s, _), Abort ->
     (* the model predicts the assertion failure - it follows the code - but every configuration and add sequence generated
        here is one the properties quantify over: an abort is a violation, model or not *)
     bump acc "both_abort";
     (* a restart interval of 0 is outside the quantifier of C01 / C09 ("restart intervals >= 1"); the statement of C08 - an add
        succeeds iff its key is greater than the last accepted one - has no such restriction *)
     viol (if c.interval = Some 0 then "[C08]" else "[C08,C09,C01]") "writer aborted on an add sequence it must handle (the model of the code predicts the failing assertion)" (Printf.sprintf "signal %d" s)
   | Signaled (s, _), _ ->
     mism "[C08,C09,C10,C01]" "writer ended by a signal" (Printf.sprintf "signal %d" s) "completes";
     viol "[C08,C09,C01]" "writer aborted on an add sequence it must handle" (Printf.sprintf "signal %d" s)
   | Exited (_, s), _ when s = "OPENFAIL" || String.length s < 4 ->
     mism "[C08,C09,C10,C01]" "harness could not run the writer" s ""
   | Exited (_, s), _ ->
     let io : impl_out = Marshal.from_string s 0 in
     let bytes = read_table_region path c.prefix in
     bumpn acc "file_bytes" (String.length bytes);
     (* --- implementation against the model --- *)
     (match mres with
      | Ok (w, mrs) ->
        if mrs <> io.results then
          mism "[C08]" "mtbl_writer_add results" (String.concat "" (List.map (fun b -> if b then "1" else "0") io.results))
            (String.concat "" (List.map (fun b -> if b then "1" else "0") mrs));
        let mbytes = string_of_nl (writer_bytes w) in
        if mbytes <> bytes then begin
          let n = min (String.length mbytes) (String.length bytes) in
          let d = ref 0 in
          while !d < n && mbytes.[!d] = bytes.[!d] do incr d done;
          mism "[C08,C09,C10,C01,C13]" "file bytes" (Printf.sprintf "len %d, first difference at %d" (String.length bytes) !d)
            (Printf.sprintf "len %d" (String.length mbytes))
        end
      | _ -> mism "[C08,C09,C10,C01]" "model writer aborts, implementation completes" "completes" "Abort");
     (* --- implementation against the specification --- *)
     if io.results <> spec_rs then
       viol "[C08]" "mtbl_writer_add accepted/refused differently from 'strictly greater than the last accepted key'"
         (String.concat "" (List.map (fun b -> if b then "1" else "0") io.results));
     if not io.prefix_ok then viol "[C09,C01]" "bytes before the initial offset were modified" "";
     (* a refused add changes nothing: the file equals the one written from the accepted adds alone *)
     if List.length accepted < List.length ops && io.results = spec_rs then begin
       let path2 = path ^ ".acc" in
       (match run_impl c accepted path2 with
        | Exited (_, s2) when String.length s2 > 4 ->
          let bytes2 = read_table_region path2 c.prefix in
          if bytes2 <> bytes then viol "[C08]" "refused adds changed the finished file (differs from the file written from the accepted adds alone)"
              (Printf.sprintf "len %d vs %d" (String.length bytes) (String.length bytes2))
        | _ -> ());
       (try Sys.remove path2 with _ -> ())
     end;
     (* C01: the real reader on the finished file, in place *)
     bump acc "read_back_in_place";
     (match read_back path with
      | Exited (_, s) when String.length s >= 2 && String.sub s 0 2 = "OK" ->
        let got : (string * string) list = Marshal.from_string s 2 in
        if got <> accepted then
          viol "[C01]" "opening the finished file and iterating it from the start does not return exactly the accepted entries"
            (Printf.sprintf "%d entries returned, %d accepted" (List.length got) (List.length accepted))
      | Exited (_, "NOOPEN") -> viol "[C01]" "the reader does not open the finished file" ""
      | Signaled (sg, _) -> viol "[C01]" "the reader stopped while iterating the finished file" (Printf.sprintf "signal %d" sg)
      | Exited (_, s) -> mism "[C01]" "harness error in read_back" s "");
     let x = { ex_block_size = mo.wo_block_size; ex_interval = mo.wo_interval; ex_comp = mo.wo_comp } in
     (match parse_table oracle_decompress (n_of_u64 c.prefix) (nl_of_string bytes) with
      | Inl code ->
        viol "[C08,C09,C01]" "file does not decode with the independent decoder (so it does not hold the accepted entries)" (Printf.sprintf "parse error %d" (int_of_n code));
        (* is it the trailer that lies?  the statistics that locate the index block must be consistent with the file
           itself: index offset = initial offset + bytes of data blocks, and index offset + index bytes + trailer = end *)
        let n = String.length bytes in
        if n >= 512 then
          (match parse_trailer (nl_of_string (String.sub bytes (n - 512) 512)) with
           | Some tr ->
             let ibo = u64_of_n tr.tr_index_block_offset and bdb = u64_of_n tr.tr_bytes_data_blocks and bib = u64_of_n tr.tr_bytes_index_block in
             if ibo <> Int64.add c.prefix bdb || Int64.add (Int64.add ibo bib) 512L <> Int64.add c.prefix (Int64.of_int n) then
               viol "[C10]" "trailer statistics differ from the truth about the file: index_block_offset / bytes_data_blocks / bytes_index_block do not add up to the file"
                 (Printf.sprintf "index_block_offset=%Ld bytes_data_blocks=%Ld bytes_index_block=%Ld initial offset=%Ld table bytes=%d" ibo bdb bib c.prefix n)
           | None -> ())
      | Inr t ->
        let code = int_of_n (wf_validate (n_of_u64 c.prefix) x t) in
        if code = 18 then viol "[C10]" "trailer statistics differ from the truth about the file" "E_META"
        else if code <> 0 then viol "[C09]" "file is not well-formed" (Printf.sprintf "validation error %d" code);
        let got = List.map (fun (k, v) -> (string_of_nl k, string_of_nl v)) (table_entries t) in
        if got <> accepted then viol "[C08,C09,C01]" "file does not hold exactly the accepted entries" (Printf.sprintf "%d entries, expected %d" (List.length got) (List.length accepted));
        (* accessors vs the trailer as decoded independently (C10) *)
        let tr = t.at_trailer in
        let truth = [| tr.tr_version; tr.tr_index_block_offset; tr.tr_data_block_size; tr.tr_compression_algorithm;
                       tr.tr_count_entries; tr.tr_count_data_blocks; tr.tr_bytes_data_blocks; tr.tr_bytes_index_block;
                       tr.tr_bytes_keys; tr.tr_bytes_values |] in
        if Array.length io.meta <> 10 then viol "[C10,C01]" "reader does not open the written file" ""
        else Array.iteri (fun i v -> if u64_of_n truth.(i) <> v then
                             viol "[C10]" (Printf.sprintf "mtbl_metadata accessor #%d differs from the file" i) (Int64.to_string v)) io.meta;
        if with_info && Int64.compare c.prefix 65536L < 0 then begin
          let info = run_mtbl_info path in
          bump acc "mtbl_info_runs";
          (* the model of print_info (model/Tools.v, T10d_mtbl_info) on the trailer as decoded independently: every
             statistics line of the tool must begin with (percentage lines) or be (the others) the model's line *)
          let raw = run_mtbl_info_raw path in
          let mm = { m_index_block_offset = tr.tr_index_block_offset; m_data_block_size = tr.tr_data_block_size;
                     m_compression_algorithm = tr.tr_compression_algorithm; m_count_entries = tr.tr_count_entries;
                     m_count_data_blocks = tr.tr_count_data_blocks; m_bytes_data_blocks = tr.tr_bytes_data_blocks;
                     m_bytes_index_block = tr.tr_bytes_index_block; m_bytes_keys = tr.tr_bytes_keys; m_bytes_values = tr.tr_bytes_values } in
          let im = info_model mm in
          let has_prefix p l = String.length l >= String.length p && String.sub l 0 (String.length p) = p in
          List.iter (fun (line, exact) ->
            let ml = string_of_nl line in
            if not (List.exists (fun l -> if exact then l = ml else has_prefix (ml ^ " (") l) raw) then
              fail acc ~kind:"model_mismatch" ~what:"[C10] mtbl_info output differs from the model of the tool (T10d_mtbl_info)"
                (JO [ "case", casej (); "model_line", JS ml ]))
            [ (im.io_index_block_offset, true); (im.io_index_bytes, false); (im.io_data_block_bytes, false); (im.io_data_block_size, true);
              (im.io_data_block_count, true); (im.io_entry_count, true); (im.io_key_bytes, true); (im.io_value_bytes, true); (im.io_compression, true) ];
          let expect = [ "index block offset:", Printf.sprintf "%Lu" (u64_of_n tr.tr_index_block_offset);
                         "index bytes:", Printf.sprintf "%Lu" (u64_of_n tr.tr_bytes_index_block);
                         "data block bytes", Printf.sprintf "%Lu" (u64_of_n tr.tr_bytes_data_blocks);
                         "data block size:", Printf.sprintf "%Lu" (u64_of_n tr.tr_data_block_size);
                         "data block count", Printf.sprintf "%Lu" (u64_of_n tr.tr_count_data_blocks);
                         "entry count:", Printf.sprintf "%Lu" (u64_of_n tr.tr_count_entries);
                         "key bytes:", Printf.sprintf "%Lu" (u64_of_n tr.tr_bytes_keys);
                         "value bytes:", Printf.sprintf "%Lu" (u64_of_n tr.tr_bytes_values);
                         "compression algorithm:", (let a = int_of_n tr.tr_compression_algorithm in if a < 6 then comp_names.(a) else string_of_int a) ] in
          List.iter (fun (lab, v) ->
            match List.assoc_opt lab info with
            | Some got when got = v -> ()
            | Some got -> viol "[C10]" ("mtbl_info prints a wrong '" ^ lab ^ "'") (got ^ " expected " ^ v)
            | None -> viol "[C10]" ("mtbl_info does not print '" ^ lab ^ "'") "") expect
        end));
  (try Sys.remove path with _ -> ())

(* entries sized so that the cut test `estimate + 15 + |k| + |v| >= block_size` is hit exactly / +-1 *)
let boundary_ops st ~block_size ~interval : (string * string) list =
  (* first entry "a0"/v0 ; estimate after it = (3 + 2 + |v0|) + 4*1 + 4 ; second entry key "a1" *)
  let delta = rrange st (-2) 2 in
  let v0 = rrange st 10 200 in
  let est = 3 + 2 + v0 + 8 in
  let v1 = block_size - est - 15 - 2 + delta in
  let v1 = max 0 v1 in
  let hdr_extra = if v0 >= 128 then 1 else 0 in
  ignore interval;
  [ ("a0", String.make v0 'p'); ("a1", String.make (max 0 (v1 - hdr_extra)) 'q'); ("a2", "r"); ("b", String.make (rrange st 0 50) 's') ]

let writer_init_existing acc =
  (* mtbl_writer_init never opens an existing path *)
  let d = tmpdir () in
  let base = Filename.concat d (Printf.sprintf "exist_%d" (Unix.getpid ())) in
  let kinds = [ "regular"; "empty"; "symlink"; "dangling_symlink"; "directory" ] in
  List.iter (fun kind ->
    let p = base ^ "_" ^ kind in
    let target = base ^ "_target" in
    (try Unix.unlink p with _ -> ()); (try Unix.rmdir p with _ -> ()); (try Unix.unlink target with _ -> ());
    (match kind with
     | "regular" -> let oc = open_out_bin p in output_string oc "precious content"; close_out oc
     | "empty" -> close_out (open_out_bin p)
     | "symlink" -> let oc = open_out_bin target in output_string oc "target content"; close_out oc; Unix.symlink target p
     | "dangling_symlink" -> Unix.symlink target p         (* the path exists (as a link); its target does not *)
     | _ -> Unix.mkdir p 0o755);
    let case = lazy (JO [ "op", JS "mtbl_writer_init on existing path"; "kind", JS kind ]) in
    record acc ~key:("exist" ^ kind) ~nontrivial:true ~klass:"writer_init_existing" case;
    let r = in_child (fun () -> let w = c_writer_init p in if w = 0n then "NULL" else (c_writer_destroy w; "OPENED")) in
    let content () = if kind = "directory" then (if Sys.is_directory p then "dir" else "gone")
      else if kind = "dangling_symlink" then (if Sys.file_exists target then "target created through the link" else (match (Unix.lstat p).Unix.st_kind with Unix.S_LNK -> "link" | _ -> "replaced"))
      else (let ic = open_in_bin (if kind = "symlink" then target else p) in let n = in_channel_length ic in let s = really_input_string ic n in close_in ic; s) in
    let expected = (match kind with "regular" -> "precious content" | "empty" -> "" | "symlink" -> "target content" | "dangling_symlink" -> "link" | _ -> "dir") in
    (match r with
     | Exited (_, "NULL") -> if content () <> expected then fail acc ~kind:"spec_violation" ~what:"[C08] existing file modified by mtbl_writer_init" (Lazy.force case)
     | _ -> fail acc ~kind:"spec_violation" ~what:"[C08] mtbl_writer_init opened an existing path" (Lazy.force case));
    (* the model of the open(2) call with the flags scraped from the source (model/OpenModel.v, T08f) on the same file system *)
    let cs s = coq_string_of s 0 in
    let bytes_of s = List.init (String.length s) (fun i -> n_of_int (Char.code s.[i])) in
    let mfs = (match kind with
        | "regular" -> [ (cs p, NReg (bytes_of "precious content")) ]
        | "empty" -> [ (cs p, NReg []) ]
        | "symlink" -> [ (cs p, NLink (cs target)); (cs target, NReg (bytes_of "target content")) ]
        | "dangling_symlink" -> [ (cs p, NLink (cs target)) ]
        | _ -> [ (cs p, NDir) ]) in
    let (mres, mfs') = writer_init_path mfs (cs p) in
    let model_null = (match mres with OpenFail -> true | OpenOk _ -> false) in
    let real_null = (match r with Exited (_, "NULL") -> true | _ -> false) in
    if model_null <> real_null || (real_null && (mfs' = mfs) <> (content () = expected)) then
      fail acc ~kind:"model_mismatch" ~what:"[C08] mtbl_writer_init on an existing path differs from the model of its open(2) call (T08f)" (Lazy.force case);
    (try Unix.unlink p with _ -> ()); (try Unix.rmdir p with _ -> ()); (try Unix.unlink target with _ -> ())) kinds

(* mtbl_writer_init on a path that does not exist yet, options NULL: the file appears, holds what the
   descriptor-based writer with default options writes for the same adds, and no descriptor is left open *)
let writer_init_fresh acc =
  let d = tmpdir () in
  let p1 = Filename.concat d (Printf.sprintf "fresh_%d_path.mtbl" (Unix.getpid ())) in
  let p2 = Filename.concat d (Printf.sprintf "fresh_%d_fd.mtbl" (Unix.getpid ())) in
  List.iter (fun (name, ops) ->
    (try Unix.unlink p1 with _ -> ()); (try Unix.unlink p2 with _ -> ());
    let case = lazy (JO [ "op", JS "mtbl_writer_init on a fresh path, NULL options"; "entries", JS name ]) in
    record acc ~key:("fresh" ^ name) ~nontrivial:true ~klass:"writer_init_fresh" case;
    let nfds () = Array.length (Sys.readdir "/proc/self/fd") in
    let r = in_child (fun () ->
        let before = nfds () in
        let w = c_writer_init p1 in
        if w = 0n then "NULL" else begin
          let during = nfds () in
          let rs = List.map (fun (k, v) -> c_writer_add w k v) ops in
          c_writer_destroy w;
          let after = nfds () in
          let fd = c_open_rw p2 true in
          let w2 = c_writer_init_fd fd (-1, false, 0, false, 0, false, 0, 0n) in
          let rs2 = List.map (fun (k, v) -> c_writer_add w2 k v) ops in
          c_writer_destroy w2; c_close fd;
          Printf.sprintf "%d %d %b" (during - before) (after - before) (rs = rs2)
        end) in
    (match r with
     | Exited (_, "NULL") -> fail acc ~kind:"spec_violation" ~what:"[C08] mtbl_writer_init refused a path that does not exist" (Lazy.force case)
     | Exited (_, o) ->
       (match String.split_on_char ' ' o with
        | [ during; after; same ] ->
          if int_of_string after <> 0 then
            fail acc ~kind:"spec_violation" ~what:"[C18] descriptors left open after mtbl_writer_init ... mtbl_writer_destroy" (JO [ "case", Lazy.force case; "leaked", JS after ]);
          if int_of_string during <> 1 then
            fail acc ~kind:"model_mismatch" ~what:"[C18] a path-based writer holds exactly one descriptor (ledger footprint)" (JO [ "case", Lazy.force case; "held", JS during ]);
          let rd f = let ic = open_in_bin f in let n = in_channel_length ic in let x = really_input_string ic n in close_in ic; x in
          if same <> "true" || (try rd p1 <> rd p2 with _ -> true) then
            fail acc ~kind:"spec_violation" ~what:"[C08,C01] the file written through mtbl_writer_init differs from the one written through mtbl_writer_init_fd with default options"
              (Lazy.force case)
        | _ -> fail acc ~kind:"model_mismatch" ~what:"[C08] harness error" (JO [ "case", Lazy.force case; "msg", JS o ]))
     | Signaled (sg, _) -> fail acc ~kind:"spec_violation" ~what:"[C08] mtbl_writer_init on a fresh path stopped the process" (JO [ "case", Lazy.force case; "signal", JI sg ]));
    (try Unix.unlink p1 with _ -> ()); (try Unix.unlink p2 with _ -> ()))
    [ ("none", []); ("few", [ ("a", "1"); ("b", "2"); ("a", "refused"); ("c", String.make 9000 'x') ]);
      ("many", List.init 600 (fun i -> (Printf.sprintf "key%05d" i, String.make (i mod 97) 'v'))) ]

(* every 37th add repeated (refused: equal key) and every 53rd followed by a smaller key (refused) *)
let with_refusals es = List.concat (List.mapi (fun i (k, v) -> if i mod 37 = 36 then [ (k, v); (k, v) ] else if i mod 53 = 52 then [ (k, v); (String.sub k 0 3, v) ] else [ (k, v) ]) es)

let run ~tier ~seed ~only acc =
  let idx = ref 0 in
  let want () = cur_index := !idx; (match only with None -> true | Some i -> i = !idx) in
  let nocfg = { comp = 0; level = None; block_size = Some 1024; interval = None; pool = 0; prefix = 0L } in
  (* directed cases *)
  let directed = [
    ("empty_table", nocfg, []);
    ("empty_table", { nocfg with comp = -1; prefix = 13L }, []);
    ("single_empty_entry", nocfg, [ ("", "") ]);
    ("single_empty_entry", { nocfg with comp = 2 }, [ ("", ""); ("big", String.make 2000 'B') ]);
    ("empty_key_dups", nocfg, [ ("", "a"); ("", "b"); ("", "c"); ("x", "d"); ("x", "e") ]);
    ("fast_path_boundary", nocfg, [ ("", String.make 128 'v'); ("b", String.make 256 'w'); (String.make 128 'c', "x") ]);
    (* F13: a restart interval of 0 keys *)
    ("restart_interval_0", { nocfg with interval = Some 0 }, [ ("a", "1"); ("b", "2"); ("b", "refused"); ("c", String.make 1200 'x'); ("d", "4") ]);
    ("restart_interval_0", { nocfg with interval = Some 0; comp = 2; pool = 2 }, List.init 40 (fun i -> (Printf.sprintf "key%03d" i, String.make (i * 7 mod 90) 'v')));
    ("sep_pairs", { nocfg with interval = Some 2 },
     List.sort_uniq compare (List.concat_map (fun (a, b) -> [ (a, String.make 300 '1'); (b, String.make 300 '2') ]) sep_pairs));
    ("sparse_prefix_4g", { nocfg with prefix = Int64.add 0x100000000L 12345L }, rentries_blocks (case_rng ~seed:7 ~engine ~index:0) ~nkeys:40 ~vlen:100);
    ("sparse_prefix_4g", { nocfg with comp = 1; prefix = Int64.sub 0x100000000L 700L }, rentries_blocks (case_rng ~seed:8 ~engine ~index:0) ~nkeys:60 ~vlen:100);
    ("key_16k", nocfg, [ ("a", "1"); (String.make 16384 'k', "2"); (String.make 16384 'k' ^ "x", String.make 16384 'v') ]);
    (* configured block sizes of 4 GiB and more (one block per file): the configured size is what the cut rule uses and
       what the trailer reports *)
    ("block_size_4g", { nocfg with block_size = Some (1 lsl 32) }, rentries_blocks (case_rng ~seed:9 ~engine ~index:0) ~nkeys:60 ~vlen:200);
    ("block_size_4g", { nocfg with block_size = Some ((1 lsl 32) + 4096); comp = 2 }, rentries_blocks (case_rng ~seed:10 ~engine ~index:0) ~nkeys:90 ~vlen:300);
    ("block_size_4g", { nocfg with block_size = Some (1 lsl 40); prefix = 77L }, rentries_blocks (case_rng ~seed:11 ~engine ~index:0) ~nkeys:30 ~vlen:100);
    (* blocks whose builder buffer has to grow while it holds entries (the ubuf starts at 64 KiB): raw blocks of about
       40 KB (growth when the restart array is appended) and 70 KB (growth inside an add), with refused adds in between - the
       extracted model is quadratic in the block size, which bounds these cases *)
    ("big_block", { nocfg with block_size = Some 40000 }, with_refusals (List.init 900 (fun i -> (Printf.sprintf "key%06d" i, String.make (60 + i mod 50) 'v'))));
    ("big_block", { nocfg with block_size = Some 70000; comp = 2 }, with_refusals (List.init 1300 (fun i -> (Printf.sprintf "key%06d" i, String.make (60 + i mod 50) (Char.chr (97 + i mod 26))))));
  ] @ (if tier <> "thorough" then [] else [
    (* an index block above 32 KiB (its builder grows when the restart array is appended): about ten minutes, the engine's
       per-block checks walk the file list from its start *)
    ("big_index", { nocfg with block_size = Some 1024 }, List.init 1250 (fun i -> (Printf.sprintf "a-rather-long-key-prefix-%08d" (i * 7), String.make 1000 (Char.chr 120))));
  ]) in
  List.iter (fun (klass, c, ops) -> if want () then check_case acc ~klass ~with_info:true c ops; incr idx) directed;
  (* every separator pair with the block cut forced between the two keys *)
  List.iter (fun (a, b) ->
    if want () then check_case acc ~klass:"sep_pair_at_cut" ~with_info:false nocfg [ (a, String.make 1100 'v'); (b, "w"); (b ^ "\xff", "x") ];
    incr idx) sep_pairs;
  if want () then writer_init_existing acc; incr idx;
  if want () then writer_init_fresh acc; incr idx;
  let n = if tier = "thorough" then 6000 else 260 in
  for _ = 1 to n do
    if want () then begin
      let st = case_rng ~seed ~engine ~index:!idx in
      let c = rcfg st ~allow_pool:true in
      let with_info = rint st 10 = 0 in
      (match rint st 6 with
       | 0 -> check_case acc ~klass:"sorted_family" ~with_info c (rentries_sorted st ~big:(rint st 10 = 0) ~maxn:60)
       | 1 -> check_case acc ~klass:"multi_block_run" ~with_info c (rentries_blocks st ~nkeys:(rrange st 5 120) ~vlen:(rrange st 0 400))
       | 2 -> let bs = (match c.block_size with Some b when b >= 1024 -> b | _ -> 1024) in
         check_case acc ~klass:"cut_boundary" ~with_info { c with block_size = Some bs; comp = (if c.comp < 0 then 0 else c.comp) }
           (boundary_ops st ~block_size:bs ~interval:c.interval)
       | 3 | 4 -> check_case acc ~klass:"unsorted_ops" ~with_info c (rops_unsorted st ~big:false ~maxn:40)
       | _ -> (* unsorted with refusals near block cuts *)
         let es = rentries_blocks st ~nkeys:(rrange st 5 60) ~vlen:(rrange st 100 350) in
         let ops = List.concat_map (fun (k, v) -> if rint st 4 = 0 then [ (k, v); (k, v) ] else if rint st 5 = 0 then [ (k, v); (String.sub k 0 1, v) ] else [ (k, v) ]) es in
         check_case acc ~klass:"refusals_near_cuts" ~with_info c ops)
    end;
    incr idx
  done
