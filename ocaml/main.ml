open Common
let () =
  let engine = ref "" and seed = ref 1 and tier = ref "quick" and out = ref "" and only = ref None in
  let args = [
    "--seed", Arg.Set_int seed, "seed";
    "--tier", Arg.Set_string tier, "quick|thorough";
    "--out", Arg.Set_string out, "result json";
    "--only", Arg.Int (fun i -> only := Some i), "replay a single case index";
  ] in
  Arg.parse args (fun s -> engine := s) "vdrv <engine> [options]";
  let acc = new_acc () in
  let t0 = Unix.gettimeofday () in
  let rule =
    match !engine with
    | "c16" -> C16.run ~tier:!tier ~seed:!seed ~only:!only acc; C16.rule
    | "wr" -> Wr.run ~tier:!tier ~seed:!seed ~only:!only acc; Wr.rule
    | "rd" -> Rd.run ~tier:!tier ~seed:!seed ~only:!only acc; Rd.rule
    | "mg" -> Mg.run ~tier:!tier ~seed:!seed ~only:!only acc; Mg.rule
    | "so" -> So.run ~tier:!tier ~seed:!seed ~only:!only acc; So.rule
    | "fs" -> Fs.run ~tier:!tier ~seed:!seed ~only:!only acc; Fs.rule
    | "lk" -> Lk.run ~tier:!tier ~seed:!seed ~only:!only acc; Lk.rule
    | "pl" -> Pl.run ~tier:!tier ~seed:!seed ~only:!only acc; Pl.rule
    | "c12" -> C12.run ~tier:!tier ~seed:!seed ~only:!only acc; C12.rule
    | "c15" -> C15.run ~tier:!tier ~seed:!seed ~only:!only acc; C15.rule
    | "c17" -> C17.run ~tier:!tier ~seed:!seed ~only:!only acc; C17.rule
    | "c19" -> C19.run ~tier:!tier ~seed:!seed ~only:!only acc; C19.rule
    | "c20" -> C20.run ~tier:!tier ~seed:!seed ~only:!only acc; C20.rule
    | e -> prerr_endline ("unknown engine " ^ e); exit 2 in
  let wall = Unix.gettimeofday () -. t0 in
  let j = result_json acc ~engine:!engine ~seed:!seed ~tier:!tier ~rule ~wall in
  let s = json_to_string j in
  if !out = "" then print_endline s
  else begin let oc = open_out !out in output_string oc s; close_out oc end
