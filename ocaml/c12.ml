(* C12: checksums.  Intact files from the real writer must verify (mtbl_verify exit 0,
   verifying reader reads everything).  Then one block (a data block, the last data
   block, or the index block) is damaged inside its stored bytes or its checksum
   field - single/double/triple bit flips, bursts <= 32 bits - and mtbl_verify must
   not say OK, and a verifying reader must stop before returning any entry decoded
   from that block, whichever operation loads it (iteration, get, get_prefix,
   get_range, seek).  Model: model/Verify.v and the verifying reader model. *)
open Common
open Mtbl_model
type string = Stdlib.String.t
open Gen

let engine = "c12"
let rule = "files: written by the real writer (none/snappy/zlib/lz4/zstd, several blocks, block lengths covering every residue mod 8). Damage, per block i in {every data block, index block}: a flip in the first / last payload byte, in each of the four checksum bytes, bursts of 2..32 bits at random positions inside payload+checksum, 1-3 random flips. Observations: mtbl_verify exit status; a verify_checksums reader running (a) full iteration (b) get of a key in block i (c) iterator on block 0 then seek into block i (d) get_prefix / get_range reaching block i (e) on one reader, a lookup and a seek that load the LAST block first and then go back into block i; the number of entries it returned before stopping. Non-trivial: every damaged case; distinct by (file, damage)."

let verify_bin () = Filename.concat (try Sys.getenv "VERIF_BUILD" with Not_found -> "/verif/build") "bin/mtbl_verify"
(* the environment override of the reader's madvise option (MTBL_READER_MADVISE_RANDOM: not set, "0", "1", other)
   must have no bearing on checksum verification; it rotates with the case index *)
let env_mode = ref 0
let env_value () = match !env_mode mod 4 with 1 -> Some "0" | 2 -> Some "1" | 3 -> Some "yes" | _ -> None
let run_verify path : int =
  let cmd = Printf.sprintf "%s%s %s >/dev/null 2>&1" (match env_value () with Some v -> "MTBL_READER_MADVISE_RANDOM=" ^ v ^ " " | None -> "")
      (Filename.quote (verify_bin ())) (Filename.quote path) in
  match Unix.system cmd with Unix.WEXITED c -> c | Unix.WSIGNALED s -> 1000 + abs s | Unix.WSTOPPED _ -> 2000

(* several files on one command line: the intact one first, the damaged one second *)
let run_verify2 first second : int =
  let cmd = Printf.sprintf "%s %s %s >/dev/null 2>&1" (Filename.quote (verify_bin ())) (Filename.quote first) (Filename.quote second) in
  match Unix.system cmd with Unix.WEXITED c -> c | Unix.WSIGNALED s -> 1000 + abs s | Unix.WSTOPPED _ -> 2000

(* a verifying reader in a child; returns (how it ended, entries returned) *)
type rop = RIterAll | RGet of string | RSeekInto of string | RPrefix of string | RRange of string * string
         | RAfterLater of string * string   (* on ONE reader: first a lookup that loads a later block, then the lookup into the damaged one *)
let rop_json = function
  | RIterAll -> JS "iterate" | RGet k -> JL [ JS "get"; jbytes k ] | RSeekInto k -> JL [ JS "iter;next;seek"; jbytes k ]
  | RPrefix k -> JL [ JS "get_prefix"; jbytes k ] | RRange (a, b) -> JL [ JS "get_range"; jbytes a; jbytes b ]
  | RAfterLater (l, k) -> JL [ JS "get(later key);get"; jbytes l; jbytes k ]
let run_reader path (op : rop) : string * (string * string) list =
  match in_child (fun () ->
      (match env_value () with Some v -> Unix.putenv "MTBL_READER_MADVISE_RANDOM" v | None -> ());
      let r = Rd.c_reader_init path true false in
      if r = 0n then "NULL" else begin
        let src = Rd.c_reader_source r in
        let out = ref [] in
        let drain it = if it <> 0n then (let continue = ref true in
                                          while !continue do match Rd.c_iter_next it with Some e -> out := e :: !out; (* report progressively *)
                                              () | None -> continue := false done) in
        (match op with
         | RIterAll -> drain (Rd.c_source_iter src)
         | RGet k -> drain (Rd.c_source_get src k)
         | RPrefix k -> drain (Rd.c_source_get_prefix src k)
         | RRange (a, b) -> drain (Rd.c_source_get_range src a b)
         | RAfterLater (l, k) ->
           let it0 = Rd.c_source_get src l in
           if it0 <> 0n then (ignore (Rd.c_iter_next it0); Rd.c_iter_destroy it0);
           (* a seek backwards from the later block as well *)
           let it1 = Rd.c_source_iter src in
           ignore (Rd.c_iter_seek it1 l); ignore (Rd.c_iter_next it1); ignore (Rd.c_iter_seek it1 k);
           (match Rd.c_iter_next it1 with Some e -> out := e :: !out | None -> ());
           drain (Rd.c_source_get src k)
         | RSeekInto k ->
           let it = Rd.c_source_iter src in
           (match Rd.c_iter_next it with Some _ -> () | None -> ());
           ignore (Rd.c_iter_seek it k);
           (match Rd.c_iter_next it with Some e -> out := e :: !out | None -> ()));
        "DONE" ^ Marshal.to_string (List.rev !out) []
      end) with
  | Exited (_, s) when String.length s >= 4 && String.sub s 0 4 = "DONE" ->
    ("completed", (Marshal.from_string s 4 : (string * string) list))
  | Exited (_, s) -> (s, [])
  | Signaled (s, _) -> ((if s = Sys.sigabrt then "SIGABRT" else Printf.sprintf "signal %d" s), [])

let model_verify (file : string) : string =
  match verify_file (nl_of_string file) with
  | VOk -> "OK" | VFailed -> "FAILED" | VOpenFailed -> "OPENFAIL" | VAbort -> "ABORT" | VOob -> "OOB"

let flip_bit (s : string) (bit : int) : string =
  let b = Bytes.of_string s in
  let i = bit / 8 in
  Bytes.set b i (Char.chr (Char.code (Bytes.get b i) lxor (1 lsl (bit mod 8)))); Bytes.to_string b

let run ~tier ~seed ~only acc =
  let idx = ref 0 in
  let want () = cur_index := !idx; (match only with None -> true | Some i -> i = !idx) in
  let path = Filename.concat (Wr.tmpdir ()) (Printf.sprintf "c12_%d.mtbl" (Unix.getpid ())) in
  let cpath = path ^ ".bad" in
  (* intact tables behind foreign bytes, over a sweep of table sizes: where the data blocks end relative to a page
     boundary, and where they begin relative to one, must not matter to mtbl_verify *)
  let pst = case_rng ~seed ~engine ~index:1 in
  List.iter (fun prefix ->
    for k = 0 to (if tier = "thorough" then 120 else 40) do
      if want () then begin
        let n = 1 + k in
        let comp = if k mod 5 = 0 then 2 else 0 in
        let c = { comp; level = None; block_size = Some 1024; interval = None; pool = 0; prefix = Int64.of_int prefix } in
        let es = List.init n (fun i -> (Printf.sprintf "key%04d" i, String.make (40 + (i * 7 + k) mod 90 + rint pst 8) (Char.chr (97 + i mod 26)))) in
        (match Wr.run_impl c es path with
         | Exited (_, s) when String.length s > 8 ->
           let case = lazy (JO [ "foreign_prefix", JI prefix; "entries", JI n; "comp", JI comp; "file_len", JI (String.length (Rd.read_file path)) ]) in
           record acc ~key:(Printf.sprintf "pfx%d/%d" prefix k) ~nontrivial:true ~klass:"intact_behind_prefix" case;
           env_mode := k;
           if run_verify path <> 0 then
             fail acc ~kind:"spec_violation" ~what:"[C12] mtbl_verify does not accept an intact file from the writer (table behind foreign bytes)" (Lazy.force case);
           if model_verify (Rd.read_file path) <> "OK" then
             fail acc ~kind:"model_mismatch" ~what:"[C12] verify model rejects an intact file behind foreign bytes" (Lazy.force case)
         | _ -> fail acc ~kind:"model_mismatch" ~what:"[C12] writer run failed" JNull)
      end;
      incr idx
    done) [ 100; 4095; 4097 ];
  let ntables = if tier = "thorough" then 12 else 4 in
  for ti = 0 to ntables - 1 do
    let st = case_rng ~seed:(seed + ti) ~engine ~index:0 in
    let comp = [| 0; 1; 2; 3; 5; 0; 4; 2; 0; 1; 5; 3 |].(ti mod 12) in
    let c = { comp; level = None; block_size = Some 1024; interval = Some (rrange st 1 5); pool = 0; prefix = 0L } in
    let es = List.init (rrange st 20 40) (fun i -> (Printf.sprintf "key%03d" i, String.make (rrange st 60 70 + (i mod 9)) (Char.chr (97 + i mod 26)))) in
    (match Wr.run_impl c es path with
     | Exited (_, s) when String.length s > 8 ->
       let file = Rd.read_file path in
       let table_json () = JO [ "cfg", cfg_json c; "entries", JI (List.length es); "file_len", JI (String.length file) ] in
       (* intact: verify OK, verifying reader reads everything *)
       if want () then begin
         env_mode := ti;
         record acc ~key:(Digest.string file) ~nontrivial:true ~klass:"intact" (lazy (table_json ()));
         let v = run_verify path in
         if v <> 0 then fail acc ~kind:"spec_violation" ~what:"[C12] mtbl_verify does not accept an intact file from the writer" (table_json ());
         if model_verify file <> "OK" then fail acc ~kind:"model_mismatch" ~what:"[C12] verify model rejects an intact file" (JO [ "table", table_json (); "model", JS (model_verify file) ]);
         (match run_reader path RIterAll with
          | ("completed", got) -> if got <> es then fail acc ~kind:"spec_violation" ~what:"[C12] verifying reader does not read an intact file completely" (table_json ())
          | (how, _) -> fail acc ~kind:"spec_violation" ~what:("[C12] verifying reader stopped on an intact file: " ^ how) (table_json ()))
       end;
       incr idx;
       (* layout through the independent decoder *)
       (match parse_table Wr.oracle_decompress N0 (nl_of_string file) with
        | Inl _ -> fail acc ~kind:"model_mismatch" ~what:"[C12] decoder does not parse the base file" (table_json ())
        | Inr t ->
          let blocks = List.map (fun ((off, b), sz) ->
              (int_of_n off, int_of_n sz, List.map (fun e -> string_of_nl e.pe_key) b.ab_entries)) t.at_blocks in
          let ibo = int_of_n t.at_trailer.tr_index_block_offset in
          let isz = int_of_n t.at_index_framed in
          let nb = List.length blocks in
          let targets = List.mapi (fun i (off, sz, keys) -> (i, off, sz, keys)) blocks @ [ (nb, ibo, isz, []) ] in
          let base_count i = List.fold_left (fun a (j, _, _, keys) -> if j < i then a + List.length keys else a) 0 targets in
          List.iter (fun (i, off, sz, keys) ->
            (* header length: framed size - 4 - stored length; find the varint length *)
            let rec vlen p = if Char.code file.[p] land 128 = 0 then p + 1 - off else vlen (p + 1) in
            let hl = vlen off in
            let lo_bit = (off + hl) * 8 and hi_bit = (off + sz) * 8 in   (* checksum field + stored bytes *)
            let nbits = hi_bit - lo_bit in
            let damages =
              [ ("first payload byte", [ (off + hl + 4) * 8 + 3 ]); ("last payload byte", [ hi_bit - 1 ]); ("last payload byte lsb", [ hi_bit - 8 ]) ]
              @ List.init 4 (fun k -> (Printf.sprintf "checksum byte %d" k, [ (off + hl + k) * 8 + (k * 2) ]))
              @ List.init (if tier = "thorough" then 40 else 6) (fun _ ->
                  let w = rrange st 2 32 in
                  let start = lo_bit + rint st (max 1 (nbits - w)) in
                  let bits = List.filter (fun _ -> rbool st) (List.init w (fun k -> start + k)) in
                  ("burst", (if bits = [] then [ start ] else List.sort_uniq compare (start :: (start + w - 1) :: bits))))
              @ List.init (if tier = "thorough" then 30 else 4) (fun _ ->
                  let k = rrange st 1 3 in
                  ("random 1-3 flips", List.sort_uniq compare (List.init k (fun _ -> lo_bit + rint st nbits)))) in
            List.iter (fun (dname, bits) ->
              if want () then begin
                env_mode := !idx;
                bump acc (Printf.sprintf "madvise_env=%s" (match env_value () with Some v -> v | None -> "unset"));
                let bad = List.fold_left flip_bit file bits in
                let case = lazy (JO [ "table", table_json (); "block", (if i = nb then JS "index" else JI i); "block_offset", JI off;
                                      "block_framed_size", JI sz; "damage", JS dname; "flipped_bits", JL (List.map (fun b -> JI b) bits);
                                      "MTBL_READER_MADVISE_RANDOM", (match env_value () with Some v -> JS v | None -> JNull) ]) in
                record acc ~key:(Digest.string bad) ~nontrivial:true ~klass:("damage:" ^ (if i = nb then "index" else if i = nb - 1 then "last_data" else "data")) case;
                bump acc (Printf.sprintf "stored_len_mod8=%d" ((sz - hl - 4) mod 8));
                Rd.write_file cpath bad;
                let v = run_verify cpath in
                (* the same damaged file named second on the command line, after the intact one *)
                if (!idx mod 7 = 0 || i = nb) && run_verify2 path cpath = 0 then
                  fail acc ~kind:"spec_violation" ~what:"[C12] mtbl_verify reports OK (exit status 0) when the damaged file is the second file on its command line" (Lazy.force case);
                let mv = model_verify bad in
                if v = 0 then fail acc ~kind:"spec_violation" ~what:"[C12] mtbl_verify reports a damaged file OK" (Lazy.force case);
                let impl_class = if v = 0 then "OK" else if v >= 128 then "ABORT" else "FAILED" in
                if impl_class <> mv then fail acc ~kind:"model_mismatch" ~what:"[C12] mtbl_verify outcome" (JO [ "case", Lazy.force case; "impl", JS impl_class; "model", JS mv ]);
                (* verifying reader: never an entry of the damaged block *)
                let allowed = if i = nb then 0 else base_count i in
                let ops = [ RIterAll ] @ (match keys with
                    | k :: _ -> [ RGet k; RSeekInto k; RPrefix (String.sub k 0 (String.length k - 1)); RRange (k, k ^ "\xff") ]
                                @ (match List.rev es with (lk, _) :: _ when not (List.mem lk keys) -> [ RAfterLater (lk, k) ] | _ -> [])
                    | [] -> [ RGet "key000"; RSeekInto "key010" ]) in
                List.iter (fun op ->
                  let (how, got) = run_reader cpath op in
                  let from_damaged = (match op with
                      | RIterAll -> List.length got > allowed
                      | _ -> List.exists (fun (k, _) -> List.mem k keys) got || (i = nb && got <> [])) in
                  if how = "completed" && (i = nb || (match op with RIterAll -> true | _ -> true)) && (from_damaged || i = nb) then
                    fail acc ~kind:"spec_violation" ~what:"[C12] a verify_checksums reader returned data although a block it had to load is damaged"
                      (JO [ "case", Lazy.force case; "operation", rop_json op; "entries_returned", JI (List.length got) ])
                  else if from_damaged then
                    fail acc ~kind:"spec_violation" ~what:"[C12] a verify_checksums reader returned an entry decoded from the damaged block"
                      (JO [ "case", Lazy.force case; "operation", rop_json op; "entries_returned", JI (List.length got) ])) ops
              end;
              incr idx) damages) targets)
     | _ -> fail acc ~kind:"model_mismatch" ~what:"[C12] writer run failed" JNull)
  done;
  (try Sys.remove path with _ -> ()); (try Sys.remove cpath with _ -> ())
