(* Engine "mg": the merger (C04, C05).  Source families of real readers and of
   user-defined sources that hand out fresh buffers on every call and poison the old
   ones; merge function (order-revealing concatenation, optionally failing at the
   n-th call) or none; dupsort or none.  Implementation vs model/Merger.v, and vs the
   specification: sorted union, every value folded exactly once. *)
open Common
open Mtbl_model
type string = Stdlib.String.t
open Gen

external c_merge_clos_new : int -> int -> nativeint = "vp_merge_clos_new"
external c_merge_clos_free : nativeint -> unit = "vp_merge_clos_free"
external c_merger_init : nativeint -> int -> nativeint = "vp_merger_init"
external c_merger_add_source : nativeint -> nativeint -> unit = "vp_merger_add_source"
external c_merger_source : nativeint -> nativeint = "vp_merger_source"
external c_merger_destroy : nativeint -> unit = "vp_merger_destroy"
external c_usrc_new : (string * string) array -> nativeint = "vp_usrc_new"
external c_usrc_source : nativeint -> nativeint = "vp_usrc_source"
external c_usrc_free : nativeint -> unit = "vp_usrc_free"

let engine = "mg"
let rule = "cases = (source family, options, iterator kind, next/seek history). Families: 0..6 sources; empty, disjoint, interleaved, identical and partially overlapping key sets; the empty key; values that are prefixes of each other; sources backed by real readers (several blocks) or by user-defined sources that invalidate old buffers on every call. Options: merge function (concatenation with separator, so fold order and exactly-once are visible) / failing at the n-th call / none; dupsort none / ascending / descending. Histories: full iteration, get/get_prefix/get_range on keys and neighbours, seek to the key just returned, backwards after exhaustion, onto keys needing merges, forward seeks that exhaust lagging sources. Non-trivial: >= 2 sources with >= 1 common key or a seek in the history; distinct by (family, options, kind, history)."

type opts = { merge : bool; fail_at : int; dupsort : int }
type kind = Rd.kind
type op = Rd.op

let split_atoms (v : string) : string list = List.sort compare (String.split_on_char '|' v)

(* specification: merged content as (key, multiset of atoms) list, keys ascending *)
let merged_spec (srcs : (string * string) list list) : (string * string list) list =
  let tbl = Hashtbl.create 64 in
  List.iter (List.iter (fun (k, v) -> Hashtbl.replace tbl k (v :: (try Hashtbl.find tbl k with Not_found -> [])))) srcs;
  List.sort compare (Hashtbl.fold (fun k vs l -> (k, List.sort compare vs) :: l) tbl [])

let mk_scur (es : (string * string) list) (k : kind) : scur =
  let nes = List.map (fun (a, b) -> (nl_of_string a, nl_of_string b)) es in
  let start key = first_ge_from nes (nl_of_string key) O in
  match k with
  | Rd.Iter -> { sc_es = nes; sc_pos = O; sc_valid = true; sc_bound = BAll; sc_null = false }
  | Rd.Get key -> { sc_es = nes; sc_pos = start key; sc_valid = true; sc_bound = BRange (nl_of_string key); sc_null = false }
  | Rd.Prefix p -> { sc_es = nes; sc_pos = start p; sc_valid = true; sc_bound = BPrefix (nl_of_string p); sc_null = false }
  | Rd.Range (a, b) -> { sc_es = nes; sc_pos = start a; sc_valid = true; sc_bound = BRange (nl_of_string b); sc_null = false }

let model_mergef (o : opts) (calls : int ref) : (n list -> n list -> n list -> n list option) option =
  if not o.merge then None else
  Some (fun _ v0 v1 ->
    incr calls;
    if o.fail_at > 0 && !calls = o.fail_at then None
    else Some (v0 @ [ n_of_int 124 ] @ v1))
let model_dupsort (o : opts) : (n list -> n list -> n list -> comparison) option =
  if o.dupsort = 0 then None
  else Some (fun _ v0 v1 -> let c = bcmp v0 v1 in if o.dupsort = 2 then (match c with Lt -> Gt | Gt -> Lt | Eq -> Eq) else c)

let show_e = Rd.show_e

(* one case, run inside a child *)
let run_case acc ~(family : (string * string) list list) ~(use_readers : bool) (o : opts) (k : kind) (ops : op list) =
  let case () = JO [ "sources", JL (List.map entries_json family); "reader_sources", JB use_readers;
                     "merge", JB o.merge; "fail_at", JI o.fail_at; "dupsort", JI o.dupsort;
                     "iterator", Rd.kind_json k; "history", JL (List.map Rd.op_json ops) ] in
  let overlap = (let all = List.concat_map (List.map fst) family in List.length all <> List.length (List.sort_uniq compare all)) in
  record acc ~key:(json_to_string (case ())) ~nontrivial:(List.length family >= 2 && (overlap || List.exists (function Rd.Seek _ -> true | _ -> false) ops))
    ~klass:(Printf.sprintf "%s/%s/%s" (if use_readers then "readers" else "user_sources") (if o.merge then (if o.fail_at > 0 then "failing_merge" else "merge") else "no_merge")
              (match k with Rd.Iter -> "iter" | Rd.Get _ -> "get" | Rd.Prefix _ -> "prefix" | Rd.Range _ -> "range")) (lazy (case ()));
  (* implementation objects *)
  let tmp = Wr.tmpdir () in
  let cleanup = ref [] in
  let srcs = List.mapi (fun i es ->
    if use_readers then begin
      let path = Filename.concat tmp (Printf.sprintf "mg_%d_%d.mtbl" (Unix.getpid ()) i) in
      (try Sys.remove path with _ -> ());
      let fd = Wr.c_open_rw path true in
      let w = Wr.c_writer_init_fd fd (0, false, 0, true, 1024, true, 1 + (i mod 4), 0n) in
      List.iter (fun (key, v) -> ignore (Wr.c_writer_add w key v)) es;
      Wr.c_writer_destroy w; Wr.c_close fd;
      let r = Rd.c_reader_init path false false in
      cleanup := (fun () -> Rd.c_reader_destroy r; (try Sys.remove path with _ -> ())) :: !cleanup;
      Rd.c_reader_source r
    end else begin
      let u = c_usrc_new (Array.of_list es) in
      cleanup := (fun () -> c_usrc_free u) :: !cleanup;
      c_usrc_source u
    end) family in
  let mc = if o.merge then c_merge_clos_new 1 o.fail_at else 0n in
  let m = c_merger_init mc o.dupsort in
  List.iter (fun s -> c_merger_add_source m s) srcs;
  let msrc = c_merger_source m in
  let it = Rd.impl_create msrc k in
  (* model *)
  let calls = ref 0 in
  let mf = model_mergef o calls and ds = model_dupsort o in
  let mit = ref (merger_iter_make ds (List.map (fun es -> mk_scur es k) family) (k <> Rd.Iter)) in
  if (it.Rd.h = 0n) <> (!mit = None) then
    fail acc ~kind:"model_mismatch" ~what:"[C05] NULL-ness of the iterator returned by the merger source" (case ());
  (* specification cursor over the merged key list *)
  let spec_keys = (if o.merge then List.map (fun (key, _) -> key) (merged_spec family)
                   else List.sort compare (List.concat_map (List.map fst) family)) in
  let spec_vals = merged_spec family in
  let sp = Rd.spec_create (Array.of_list (List.map (fun key -> (key, "")) spec_keys)) k in
  let failed = ref false in
  let prev_out = ref None in
  (* which property a wrong step speaks about: plain iteration from the start (no seek so far) is C04's subject and,
     being the trivial history, C05's too; once the history contains a seek, or for get / get_prefix / get_range
     iterators, it is C05's alone *)
  let sought = ref false in
  let tag () = if k = Rd.Iter && not !sought then "[C04,C05]" else "[C05]" in
  (try
     List.iteri (fun nstep op ->
       (match op with Rd.Seek _ -> sought := true | Rd.Next -> ());
       let (ie, intact) = Rd.impl_step it op in
       ignore intact;
       let me = (match !mit with
           | None -> None
           | Some mi ->
             (match op with
              | Rd.Seek key -> mit := Some (merger_seek ds mi (nl_of_string key)); None
              | Rd.Next -> let (mi', e) = merger_next mf ds mi in mit := Some mi';
                (match e with Some (a, b) -> Some (string_of_nl a, string_of_nl b) | None -> None))) in
       if me <> ie then begin
         fail acc ~kind:"model_mismatch" ~what:(tag () ^ " merger iterator step result") (JO [ "case", case (); "step", JI nstep; "impl", JS (show_e ie); "model", JS (show_e me) ]);
       end;
       (* specification: entries with equal keys come in the order the dupsort function defines *)
       (match op, ie with
        | Rd.Next, Some (ik, iv) ->
          (match !prev_out with
           | Some (pk, pv) when pk = ik && (not o.merge) && o.dupsort <> 0 && o.fail_at = 0 ->
             let c = compare pv iv in
             if (if o.dupsort = 2 then c < 0 else c > 0) then
               fail acc ~kind:"spec_violation" ~what:"[C04] entries with equal keys are not ordered by the dupsort function" (JO [ "case", case (); "step", JI nstep ])
           | _ -> ());
          prev_out := Some (ik, iv)
        | _ -> prev_out := None);
       let se = Rd.spec_step sp op in
       if o.fail_at = 0 then begin
         (match ie, se with
          | None, None -> ()
          | Some (ik, iv), Some (sk, _) ->
            if ik <> sk then begin
              fail acc ~kind:"spec_violation" ~what:(Printf.sprintf "%s merger returned key %s where the merged content gives %s" (tag ()) (show_e ie) (show_e se)) (JO [ "case", case (); "step", JI nstep ]);
              raise Exit end;
            let atoms = List.assoc ik spec_vals in
            if o.merge then begin
              if split_atoms iv <> atoms then begin
                fail acc ~kind:"spec_violation" ~what:(tag () ^ " merged value is not the fold of exactly the values held for that key (each once)")
                  (JO [ "case", case (); "step", JI nstep; "key", jbytes ik; "value", jbytes iv ]); raise Exit end
            end else if not (List.mem iv atoms) then begin
              fail acc ~kind:"spec_violation" ~what:"[C04] entry emitted that no source holds" (JO [ "case", case (); "step", JI nstep; "key", jbytes ik; "value", jbytes iv ]); raise Exit end
          | _ ->
            fail acc ~kind:"spec_violation" ~what:(Printf.sprintf "%s merger returned %s where the merged content gives %s" (tag ()) (show_e ie) (show_e se)) (JO [ "case", case (); "step", JI nstep ]);
            raise Exit)
       end else begin
         (* with a failing merge function the history goes on after the failed call: whatever is delivered then is still
            an entry of the sources - its key is held by some source, and its value folds values held for that key *)
         (match ie with
          | Some (ik, iv) ->
            (match List.assoc_opt ik spec_vals with
             | None ->
               fail acc ~kind:"spec_violation" ~what:"[C04] after a failed merge the merger delivered a key that no source holds" (JO [ "case", case (); "step", JI nstep; "key", jbytes ik; "value", jbytes iv ]); raise Exit
             | Some atoms ->
               if not (List.for_all (fun a -> List.mem a atoms) (split_atoms iv)) then begin
                 fail acc ~kind:"spec_violation" ~what:"[C04] after a failed merge the merger delivered a value that is not a fold of values held for that key" (JO [ "case", case (); "step", JI nstep; "key", jbytes ik; "value", jbytes iv ]); raise Exit end)
          | None -> ());
         if ie = None && se <> None then failed := true
       end) ops
   with Exit -> ());
  Rd.impl_destroy it;
  c_merger_destroy m; if mc <> 0n then c_merge_clos_free mc;
  List.iter (fun f -> f ()) !cleanup

(* full-iteration check of the no-merge / dupsort order (needs the whole output) *)
let check_dupsort_order acc ~family (o : opts) (out : (string * string) list) case =
  if not o.merge && o.dupsort <> 0 then begin
    let rec go = function
      | (k1, v1) :: ((k2, v2) :: _ as tl) ->
        if k1 = k2 && (let c = compare v1 v2 in if o.dupsort = 2 then c < 0 else c > 0) then
          fail acc ~kind:"spec_violation" ~what:"[C04] entries with equal keys are not ordered by the dupsort function" (case ())
        else go tl
      | _ -> () in
    go out;
    let expect = List.sort compare (List.concat family) in
    if List.sort compare out <> expect then
      fail acc ~kind:"spec_violation" ~what:"[C04] without a merge function the output is not exactly the source entries" (case ())
  end

let rfamily st : (string * string) list list =
  let nsrc = (match rint st 8 with 0 -> 0 | 1 -> 1 | 2 -> rrange st 7 12 | _ -> rrange st 2 6) in
  let keyspace = Array.init (rrange st 3 14) (fun i -> if i = 0 && rint st 3 = 0 then "" else Printf.sprintf "%c%02d" (Char.chr (97 + rint st 3)) (i * 3 + rint st 2)) in
  (* keys of different lengths, some a proper prefix / extension of another *)
  let keyspace = Array.append keyspace (Array.of_list (List.concat_map (fun key ->
      if key <> "" && rint st 3 = 0 then [ String.sub key 0 (String.length key - 1); key ^ "x" ] else []) (Array.to_list keyspace))) in
  let keyspace = Array.of_list (List.sort_uniq compare (Array.to_list keyspace)) in
  List.init nsrc (fun si ->
    let mode = rint st 5 in
    let keys = List.filter (fun _ -> match mode with 0 -> false | 1 -> true | 2 -> rint st 3 = 0 | _ -> rbool st) (Array.to_list keyspace) in
    List.mapi (fun j key ->
      (* values: unique atoms; some are prefixes of others; lengths vary; some large to span blocks *)
      let base = Printf.sprintf "s%dv%d" si j in
      let v = (match rint st 6 with 0 -> String.sub base 0 2 ^ String.make si 'q' | 1 -> base ^ String.make (rrange st 100 400) 'x' | _ -> base) in
      (key, v)) keys)

(* the mtbl_merge tool (src/mtbl_merge.c) with a user DSO: the output table holds the merged content of its inputs.
   Prefix "join": the merge function needs the closure its init function returns; prefix "first": no init function. *)
let merge_tool acc st ~(family : (string * string) list list) =
  let bdir = (try Sys.getenv "VERIF_BUILD" with Not_found -> "/verif/build") in
  let tool = Filename.concat bdir "bin/mtbl_merge" and dso = Filename.concat bdir "bin/merge_dso.so" in
  let tmp = Wr.tmpdir () in
  let pid = Unix.getpid () in
  let inputs = List.mapi (fun i es ->
    let path = Filename.concat tmp (Printf.sprintf "mt_%d_%d.mtbl" pid i) in
    (try Sys.remove path with _ -> ());
    let fd = Wr.c_open_rw path true in
    let w = Wr.c_writer_init_fd fd (rint st 6, false, 0, true, 1024, false, 0, 0n) in
    List.iter (fun (key, v) -> ignore (Wr.c_writer_add w key v)) es;
    Wr.c_writer_destroy w; Wr.c_close fd; path) family in
  let out = Filename.concat tmp (Printf.sprintf "mt_%d_out.mtbl" pid) in
  (try Sys.remove out with _ -> ());
  let prefix = if rint st 4 = 0 then "first" else "join" in
  let comp = [| "none"; "snappy"; "zlib"; "lz4"; "lz4hc"; "zstd"; "ZLIB" |].(rint st 7) in
  let bs = rrange st 512 9000 in
  let (bs_env, bs_arg) = (match rint st 3 with 0 -> (Printf.sprintf "MTBL_MERGE_BLOCK_SIZE=%d " bs, "") | 1 -> ("", Printf.sprintf "-b %d " bs) | _ -> ("", "")) in
  let threads = (match rint st 3 with 0 -> "" | 1 -> "-t 0 " | _ -> Printf.sprintf "-t %d " (rrange st 1 3)) in
  let level = if rint st 3 = 0 then Printf.sprintf "-l %d " (rrange st (-3) 12) else "" in
  let cmd = Printf.sprintf "%sMTBL_MERGE_DSO=%s MTBL_MERGE_FUNC_PREFIX=%s %s %s%s%s-c %s %s %s >/dev/null 2>&1" bs_env (Filename.quote dso) prefix (Filename.quote tool)
      bs_arg threads level comp (String.concat " " (List.map Filename.quote inputs)) (Filename.quote out) in
  let case = lazy (JO [ "tool", JS "mtbl_merge"; "sources", JL (List.map entries_json family); "merge_function", JS prefix; "options", JS (bs_env ^ bs_arg ^ threads ^ level ^ "-c " ^ comp) ]) in
  record acc ~key:(json_to_string (Lazy.force case)) ~nontrivial:(List.length family >= 2) ~klass:("mtbl_merge_tool/" ^ prefix) case;
  let status = (match Unix.system cmd with Unix.WEXITED c -> c | Unix.WSIGNALED sg -> 1000 + abs sg | Unix.WSTOPPED _ -> 2000) in
  let got = (let r = Rd.c_reader_init out false false in
             if r = 0n then None else begin
               let it = Rd.c_source_iter (Rd.c_reader_source r) in
               let l = ref [] in
               let continue = ref true in
               while !continue do match Rd.c_iter_next it with Some e -> l := e :: !l | None -> continue := false done;
               Rd.c_iter_destroy it; Rd.c_reader_destroy r; Some (List.rev !l) end) in
  let spec = merged_spec family in
  (* the model of the tool (model/ToolsMerge.v, theorems T04t): merger over the inputs' entries, every merged entry added to a
     writer with the options the command line leaves; its file must be the tool's file byte for byte *)
  (let comp_id = (match String.lowercase_ascii comp with "none" -> 0 | "snappy" -> 1 | "zlib" -> 2 | "lz4" -> 3 | "lz4hc" -> 4 | _ -> 5) in
   let lvl = (if level = "" then dEFAULT_COMPRESSION_LEVEL else Scanf.sscanf level "-l %d " Wr.z_of_int) in
   let o = { wo_comp = n_of_int comp_id; wo_level = lvl;
             wo_block_size = clamp_block_size (if bs_env = "" && bs_arg = "" then mERGE_TOOL_DEFAULT_BLOCK_SIZE else n_of_int bs);
             wo_interval = dEFAULT_BLOCK_RESTART_INTERVAL } in
   let mf = (fun (_ : n list) (v0 : n list) (v1 : n list) -> if prefix = "join" then Some (v0 @ [ n_of_int 124 ] @ v1) else Some v0) in
   (* the entries each input table holds: what its writer accepted *)
   let accepted es = List.rev (snd (List.fold_left (fun (last, acc) (k, v) -> match last with Some l when compare k l <= 0 -> (last, acc) | _ -> (Some k, (k, v) :: acc)) (None, []) es)) in
   let srcs = List.map (fun es -> List.map (fun (k, v) -> (nl_of_string k, nl_of_string v)) (accepted es)) family in
   let real = (try let ic = open_in_bin out in let n = in_channel_length ic in let x = really_input_string ic n in close_in ic; Some x with _ -> None) in
   bump acc "merge_tool_model_compared";
   match merge_tool_model Wr.oracle_compress_default Wr.oracle_compress_level mf o srcs, real with
   | Ok (w, _), Some x ->
     if string_of_nl (writer_bytes w) <> x then
       fail acc ~kind:"model_mismatch" ~what:"[C04] the file written by mtbl_merge differs from the model of the tool (model/ToolsMerge.v, T04t_end_to_end)"
         (JO [ "case", Lazy.force case; "model_bytes", JI (List.length (writer_bytes w)); "tool_bytes", JI (String.length x) ])
   | Ok _, None -> ()      (* reported below: no output table *)
   | _, _ -> fail acc ~kind:"model_mismatch" ~what:"[C04] the model of mtbl_merge fails an assertion on inputs the theorem T04t_no_assertion_fails covers" (Lazy.force case));
  (match got with
   | None -> fail acc ~kind:"spec_violation" ~what:(Printf.sprintf "[C04] mtbl_merge (exit status %d) left no readable output table" status) (Lazy.force case)
   | Some l ->
     let ok = (if prefix = "join" then List.map (fun (key, v) -> (key, split_atoms v)) l = spec
               else List.map fst l = List.map fst spec && List.for_all2 (fun (_, v) (_, atoms) -> List.mem v atoms) l spec) in
     if status <> 0 || not ok then
       fail acc ~kind:"spec_violation" ~what:(Printf.sprintf "[C04] the table written by mtbl_merge (exit status %d) is not the merged content of its inputs folded by the user merge function" status)
         (JO [ "case", Lazy.force case; "got", entries_json l ]));
  List.iter (fun p -> try Sys.remove p with _ -> ()) (out :: inputs)

let run ~tier ~seed ~only acc =
  let idx = ref 0 in
  let want () = cur_index := !idx; (match only with None -> true | Some i -> i = !idx) in
  let in_child_case f descr =
    (match with_child_acc acc f with
     | None -> ()
     | Some sg -> fail acc ~kind:"spec_violation" ~what:(Printf.sprintf "[C04,C05] the merger stopped the process (signal %d)" sg) descr) in
  let nexts = Rd.nexts in
  (* directed: the repaired defects and the sub-agents' shapes *)
  let dir = [
    ([ [ ("", "E"); ("a", "A") ] ], { merge = true; fail_at = 0; dupsort = 0 }, Rd.Iter, nexts 3);
    ([ [ ("", "E"); ("a", "A") ]; [ ("", "F"); ("b", "B") ] ], { merge = true; fail_at = 0; dupsort = 0 }, Rd.Iter, nexts 4);
    ([ List.init 6 (fun i -> (Printf.sprintf "k%02d" i, Printf.sprintf "v%d" i)) ], { merge = true; fail_at = 0; dupsort = 0 }, Rd.Iter,
     [ Rd.Next; Rd.Next; Rd.Seek "k01"; Rd.Next; Rd.Seek "k01"; Rd.Next; Rd.Next ]);
    ([ [ ("b", "1"); ("d", "2") ]; [ ("a", "3"); ("z", "4") ] ], { merge = true; fail_at = 0; dupsort = 0 }, Rd.Iter,
     [ Rd.Next; Rd.Seek "e"; Rd.Seek "c"; Rd.Next; Rd.Next; Rd.Next ]);
    ([ [ ("a", "1"); ("m", "2"); ("z", "3") ]; [ ("a", "4"); ("n", "5"); ("z", "6") ]; [ ("a", "7"); ("o", "8"); ("z", "9") ];
       [ ("a", "10"); ("k", "11"); ("z", "12") ]; [ ("a", "13"); ("k", "14"); ("z", "15") ] ], { merge = true; fail_at = 0; dupsort = 0 }, Rd.Iter,
     [ Rd.Seek "b"; Rd.Next; Rd.Next; Rd.Next; Rd.Next; Rd.Next ]);
    (* short keys that differ only by trailing NUL bytes (the empty key and "\000", "a" and "a\000"), every source order *)
    ([ [ ("", "1"); ("a", "2") ]; [ ("\000", "3"); ("a\000", "4") ]; [ ("", "5"); ("\000", "6"); ("a", "7"); ("a\000", "8") ] ], { merge = true; fail_at = 0; dupsort = 0 }, Rd.Iter, nexts 6);
    ([ [ ("\000", "3"); ("a\000", "4") ]; [ ("", "1"); ("a", "2") ]; [ ("", "5"); ("\000", "6"); ("a", "7"); ("a\000", "8") ] ], { merge = true; fail_at = 0; dupsort = 0 }, Rd.Iter, nexts 6);
    ([ [ ("", "5"); ("\000", "6"); ("a", "7"); ("a\000", "8") ]; [ ("\000", "3"); ("a\000", "4") ]; [ ("", "1"); ("a", "2") ] ], { merge = true; fail_at = 0; dupsort = 0 }, Rd.Iter, nexts 6);
    ([ [ ("a\000\000", "1") ]; [ ("a", "2") ]; [ ("a\000", "3") ]; [ ("a", "4"); ("a\000\000", "5") ] ], { merge = false; fail_at = 0; dupsort = 1 }, Rd.Iter, nexts 7);
    ([ [ ("k", "a") ]; [ ("k", "ab") ]; [ ("k", "abc") ]; [ ("", "x"); ("k", "b") ] ], { merge = false; fail_at = 0; dupsort = 2 }, Rd.Iter, nexts 6);
    ([ [ ("k", "a") ]; [ ("k", "ab") ]; [ ("k", "abc") ] ], { merge = true; fail_at = 2; dupsort = 0 }, Rd.Iter, nexts 3);
    ([ [ ("k", "a") ]; [ ("k", "ab") ]; [ ("k", "abc") ] ], { merge = true; fail_at = 1; dupsort = 0 }, Rd.Iter, nexts 3);
    (* lookups with bounds of different lengths over keys that extend one another *)
    ([ [ ("c", "1"); ("cz", "2"); ("d", "3"); ("dab", "4"); ("ezz", "5") ]; [ ("c", "6"); ("d", "7"); ("da", "8"); ("e", "9") ] ], { merge = true; fail_at = 0; dupsort = 0 }, Rd.Range ("c", "dab"), nexts 7);
    ([ [ ("c", "1"); ("cz", "2"); ("d", "3"); ("dab", "4"); ("ezz", "5") ]; [ ("c", "6"); ("d", "7"); ("da", "8"); ("e", "9") ] ], { merge = true; fail_at = 0; dupsort = 0 }, Rd.Range ("d", "dab"), nexts 5);
    ([ [ ("c", "1"); ("cz", "2"); ("d", "3"); ("dab", "4"); ("ezz", "5") ]; [ ("c", "6"); ("d", "7"); ("da", "8"); ("e", "9") ] ], { merge = true; fail_at = 0; dupsort = 0 }, Rd.Range ("", "ezz"), nexts 9);
    ([ [ ("c", "1"); ("cz", "2"); ("d", "3"); ("dab", "4"); ("ezz", "5") ]; [ ("c", "6"); ("d", "7"); ("da", "8"); ("e", "9") ] ], { merge = true; fail_at = 0; dupsort = 0 }, Rd.Range ("cz", "e"), nexts 7);
    ([ [ ("c", "1"); ("cz", "2"); ("d", "3"); ("dab", "4"); ("ezz", "5") ]; [ ("c", "6"); ("d", "7"); ("da", "8"); ("e", "9") ] ], { merge = true; fail_at = 0; dupsort = 0 }, Rd.Get "d", [ Rd.Next; Rd.Next; Rd.Seek "d"; Rd.Next; Rd.Next ]);
    ([ [ ("c", "1"); ("cz", "2"); ("d", "3"); ("dab", "4"); ("ezz", "5") ]; [ ("c", "6"); ("d", "7"); ("da", "8"); ("e", "9") ] ], { merge = true; fail_at = 0; dupsort = 0 }, Rd.Get "ez", nexts 2);
    ([ [ ("c", "1"); ("cz", "2"); ("d", "3"); ("dab", "4"); ("ezz", "5") ]; [ ("c", "6"); ("d", "7"); ("da", "8"); ("e", "9") ] ], { merge = true; fail_at = 0; dupsort = 0 }, Rd.Get "da", nexts 3);
    ([ [ ("c", "1"); ("cz", "2"); ("d", "3"); ("dab", "4"); ("ezz", "5") ]; [ ("c", "6"); ("d", "7"); ("da", "8"); ("e", "9") ] ], { merge = true; fail_at = 0; dupsort = 0 }, Rd.Prefix "d", nexts 5);
    ([ [ ("c", "1"); ("cz", "2"); ("d", "3"); ("dab", "4"); ("ezz", "5") ]; [ ("c", "6"); ("d", "7"); ("da", "8"); ("e", "9") ] ], { merge = true; fail_at = 0; dupsort = 0 }, Rd.Prefix "da", nexts 4);
    (* seven sources whose first keys arrive in an order that exercises siftup at even and odd slots *)
    (List.map (fun k -> [ (k, "v" ^ k) ]) [ "a0"; "a1"; "a4"; "a2"; "a5"; "a6"; "a3" ], { merge = true; fail_at = 0; dupsort = 0 }, Rd.Iter, nexts 8);
    (List.map (fun k -> [ (k, "v" ^ k) ]) [ "a0"; "a1"; "a4"; "a2"; "a5"; "a6"; "a3" ], { merge = false; fail_at = 0; dupsort = 0 }, Rd.Iter, nexts 8);
    (List.map (fun k -> [ (k, "v" ^ k); ("z" ^ k, "w" ^ k) ]) [ "a0"; "a1"; "a4"; "a2"; "a5"; "a6"; "a3" ], { merge = true; fail_at = 0; dupsort = 0 }, Rd.Iter, nexts 15);
    (List.map (fun k -> [ ("", "e" ^ k); (k, "v" ^ k); ("m", "m" ^ k); ("z" ^ k, "w" ^ k) ]) [ "a0"; "a1"; "a4"; "a2"; "a5"; "a6"; "a3" ], { merge = true; fail_at = 0; dupsort = 0 }, Rd.Iter, nexts 20);
  ] in
  List.iter (fun (family, o, k, ops) ->
    List.iter (fun use_readers ->
      if want () then in_child_case (fun a -> run_case a ~family ~use_readers o k ops) (JO [ "directed", JL (List.map entries_json family) ]);
      incr idx) [ false; true ]) dir;
  (* many sources whose first keys arrive in a random order: the shape of the heap built by the constructor *)
  let nperm = if tier = "thorough" then 600 else 60 in
  for _ = 1 to nperm do
    if want () then begin
      let st = case_rng ~seed ~engine ~index:!idx in
      let k = rrange st 7 10 in
      let a = Array.init k (fun i -> i) in
      for i = k - 1 downto 1 do let j = rint st (i + 1) in let t = a.(i) in a.(i) <- a.(j); a.(j) <- t done;
      let shared_first = rbool st and shared_mid = rbool st in
      let family = List.init k (fun si ->
        (if shared_first then [ ("", Printf.sprintf "e%d" si) ] else [])
        @ [ (Printf.sprintf "a%d" a.(si), Printf.sprintf "s%d" si) ]
        @ (if shared_mid then [ ("m", Printf.sprintf "m%d" si) ] else [])
        @ [ (Printf.sprintf "z%d" (rint st 3), Printf.sprintf "t%d" si) ]) in
      let o = { merge = rbool st; fail_at = 0; dupsort = 0 } in
      in_child_case (fun acc' -> run_case acc' ~family ~use_readers:(rbool st) o Rd.Iter (nexts (4 * k + 2))) (JO [ "sources", JL (List.map entries_json family) ])
    end;
    incr idx
  done;
  (* the mtbl_merge tool *)
  let nt = if tier = "thorough" then 300 else 24 in
  for _ = 1 to nt do
    if want () then begin
      let st = case_rng ~seed ~engine ~index:!idx in
      let family = List.filter (fun es -> es <> [] || rbool st) (rfamily st) in
      let family = if family = [] then [ [ ("k", "v") ] ] else family in
      merge_tool acc st ~family
    end;
    incr idx
  done;
  let n = if tier = "thorough" then 5000 else 300 in
  for _ = 1 to n do
    if want () then begin
      let st = case_rng ~seed ~engine ~index:!idx in
      let family = rfamily st in
      let o = { merge = rint st 3 > 0; fail_at = (if rint st 8 = 0 then rrange st 1 4 else 0); dupsort = (if rint st 3 = 0 then rrange st 1 2 else 0) } in
      let o = if o.merge then o else { o with fail_at = 0 } in
      let allkeys = Array.of_list (List.sort_uniq compare ("" :: "zzz" :: List.concat_map (fun es -> List.concat_map (fun (key, _) -> Rd.neighbours key) es) family)) in
      let rk () = allkeys.(rint st (Array.length allkeys)) in
      let k = (match rint st 5 with 0 | 1 -> Rd.Iter | 2 -> Rd.Get (rk ()) | 3 -> Rd.Prefix (let s = rk () in String.sub s 0 (min (String.length s) (rint st 3)))
                                  | _ -> Rd.Range (rk (), rk ())) in
      let start = (match k with Rd.Iter -> "" | Rd.Get s -> s | Rd.Prefix s -> s | Rd.Range (a, _) -> a) in
      let total = List.fold_left (fun a es -> a + List.length es) 0 family in
      let ops = (match rint st 4 with
          | 0 -> nexts (total + 2)
          | _ -> List.init (rrange st 2 16) (fun _ -> if rint st 3 = 0 then (let t = rk () in Rd.Seek (if compare t start >= 0 then t else start)) else Rd.Next)) in
      let use_readers = rbool st in
      in_child_case (fun a ->
          run_case a ~family ~use_readers o k ops;
          (* full-output checks in the no-merge / dupsort modes *)
          if (not o.merge) && k = Rd.Iter then begin
            let u = List.map (fun es -> c_usrc_new (Array.of_list es)) family in
            let m = c_merger_init 0n o.dupsort in
            List.iter (fun x -> c_merger_add_source m (c_usrc_source x)) u;
            let it = Rd.c_source_iter (c_merger_source m) in
            let out = ref [] in
            let continue = ref true in
            while !continue do match Rd.c_iter_next it with Some e -> out := e :: !out | None -> continue := false done;
            Rd.c_iter_destroy it; c_merger_destroy m; List.iter c_usrc_free u;
            check_dupsort_order a ~family o (List.rev !out) (fun () -> JO [ "sources", JL (List.map entries_json family); "dupsort", JI o.dupsort ])
          end) (JO [ "sources", JL (List.map entries_json family) ])
    end;
    incr idx
  done
