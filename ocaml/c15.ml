(* C15: compression wrappers.  Every round trip runs in a forked child (an abort is an
   outcome, not a crash of the driver): mtbl_compress / mtbl_compress_level then
   mtbl_decompress must give back the input or report failure - never abort.  Names
   go through the real to_str/from_str and the model's tables. *)
open Common
open Mtbl_model
type string = Stdlib.String.t

external c_to_str : int -> string option = "vp_comp_to_str"
external c_from_str : string -> int option = "vp_comp_from_str"

let engine = "c15"
let rule = "buffers: every length 0..64 x {zeros, ramp, 0xFF, pseudo-random} and random structured buffers up to 64 KiB (quick) / 2 MiB (thorough) x 5 algorithms x {mtbl_compress, mtbl_compress_level with levels -10000,-5,-1,0,1,3,9,10,12,19,22,100}. Names: all table names in lower/upper/mixed case, near misses, unknown strings, out-of-range enum values. Non-trivial: length >= 1 or a level outside the library's range; distinct by (algorithm, level, content)."

let levels = [| None; Some (-10000); Some (-5); Some (-1); Some 0; Some 1; Some 3; Some 9; Some 10; Some 12; Some 19; Some 22; Some 100 |]

let roundtrip alg (lvl : int option) (s : string) : string =
  match in_child (fun () ->
      let c = (match lvl with None -> Wr.c_compress alg false 0 s | Some l -> Wr.c_compress alg true l s) in
      match c with
      | None -> "COMPRESS_FAILED"
      | Some z ->
        (match Wr.c_decompress alg z with
         | None -> "DECOMPRESS_FAILED"
         | Some d -> if d = s then "OK" else "MISMATCH")) with
  | Exited (_, r) -> r
  | Signaled (sg, _) -> if sg = Sys.sigabrt then "SIGABRT" else Printf.sprintf "SIGNAL%d" sg

let check acc ~klass alg lvl (s : string) =
  let case = lazy (JO [ "alg", JI alg; "level", (match lvl with None -> JS "default" | Some l -> JI l); "len", JI (String.length s);
                        "head", JS (hex (String.sub s 0 (min 16 (String.length s)))) ]) in
  record acc ~key:(Printf.sprintf "%d/%s/%s" alg (match lvl with None -> "d" | Some l -> string_of_int l) (Digest.string s))
    ~nontrivial:(String.length s >= 1 || lvl <> None) ~klass case;
  let r = roundtrip alg lvl s in
  bump acc ("outcome_" ^ r);
  (* model: with the documented library contracts the wrappers succeed and round-trip for inputs below INT_MAX *)
  if r <> "OK" then begin
    fail acc ~kind:"model_mismatch" ~what:"[C15] round-trip outcome (model: succeeds)" (JO [ "case", Lazy.force case; "impl", JS r ]);
    if r <> "COMPRESS_FAILED" then
      fail acc ~kind:"spec_violation" ~what:("[C15] compress/decompress did not return the input: " ^ r) (Lazy.force case)
  end

let content st kind n = match kind with
  | 0 -> String.make n '\000' | 1 -> String.init n (fun i -> Char.chr (i land 255))
  | 2 -> String.make n '\255' | _ -> rbytes st n

(* the Coq string type <-> OCaml strings *)
let rec coq_string_of (s : string) i : Mtbl_model.string =
  if i >= String.length s then EmptyString
  else String (ascii_of_N (n_of_int (Char.code s.[i])), coq_string_of s (i + 1))
let rec ocaml_string_of (s : Mtbl_model.string) : string =
  match s with EmptyString -> "" | String (c, tl) -> String.make 1 (Char.chr (int_of_n (n_of_ascii c))) ^ ocaml_string_of tl

let check_names acc =
  let names = [ "none"; "snappy"; "zlib"; "lz4"; "lz4hc"; "zstd" ] in
  let variants = List.concat_map (fun n -> [ n; String.uppercase_ascii n; String.capitalize_ascii n; n ^ " "; " " ^ n; n ^ "x";
                                             String.sub n 0 (String.length n - 1); n ^ "\x00x" ]) names
                 @ [ ""; "gzip"; "lz"; "lz4h"; "LZ4HC"; "ZsTd"; "z"; "none\n"; "snappyy"; "\xffzlib" ] in
  List.iter (fun s ->
    if not (String.contains s '\000') then begin
      record acc ~key:("name" ^ s) ~nontrivial:true ~klass:"names" (lazy (JO [ "name", jbytes s ]));
      let i = c_from_str s in
      let m = (match compression_type_from_str (coq_string_of s 0) with Some t -> Some (int_of_n t) | None -> None) in
      if i <> m then fail acc ~kind:"model_mismatch" ~what:"[C15] mtbl_compression_type_from_str" (JO [ "name", jbytes s ]);
      (* spec: accepted iff equal, ignoring ASCII case, to one of the six names *)
      let expect = (let l = String.lowercase_ascii s in
                    let rec idx n = function [] -> None | x :: tl -> if x = l then Some n else idx (n + 1) tl in idx 0 names) in
      if i <> expect then fail acc ~kind:"spec_violation" ~what:"[C15] from_str accepts/refuses the wrong names" (JO [ "name", jbytes s ])
    end) variants;
  for t = -1 to 8 do
    record acc ~key:(Printf.sprintf "enum%d" t) ~nontrivial:true ~klass:"names" (lazy (JO [ "enum", JI t ]));
    let i = c_to_str t in
    let m = (if t < 0 then None else match compression_type_to_str (n_of_int t) with Some s -> Some (ocaml_string_of s) | None -> None) in
    if i <> m then fail acc ~kind:"model_mismatch" ~what:"[C15] mtbl_compression_type_to_str" (JO [ "enum", JI t ]);
    (match i with
     | Some s -> if c_from_str s <> Some t then fail acc ~kind:"spec_violation" ~what:"[C15] name does not round-trip through to_str/from_str" (JO [ "enum", JI t ])
     | None -> if t >= 0 && t <= 5 then fail acc ~kind:"spec_violation" ~what:"[C15] a defined algorithm has no name" (JO [ "enum", JI t ]))
  done

external c_codec_mt_stress : int -> int -> int -> int = "vp_codec_mt_stress"

(* round trip from several threads at once: each thread compresses and decompresses its own buffers *)
let check_threads acc ~tier =
  for alg = 1 to 5 do
    let case = lazy (JO [ "algorithm", JI alg; "threads", JI 8; "rounds_per_thread", JI (if tier = "thorough" then 400 else 60) ]) in
    record acc ~key:(Printf.sprintf "mt%d" alg) ~nontrivial:true ~klass:"concurrent_round_trip" case;
    (match in_child (fun () -> string_of_int (c_codec_mt_stress alg 8 (if tier = "thorough" then 400 else 60))) with
     | Exited (_, "0") -> ()
     | Exited (_, s) -> fail acc ~kind:"spec_violation" ~what:("[C15,C14] compress/decompress round trip fails when several threads use the library at once (" ^ s ^ " failures)") (Lazy.force case)
     | Signaled (sg, _) -> fail acc ~kind:"spec_violation" ~what:(Printf.sprintf "[C15,C14] the process stopped (signal %d) while several threads compressed and decompressed their own buffers" sg) (Lazy.force case))
  done

let run ~tier ~seed ~only acc =
  let idx = ref 0 in
  let want () = cur_index := !idx; (match only with None -> true | Some i -> i = !idx) in
  if want () then check_names acc; incr idx;
  if want () then check_threads acc ~tier; incr idx;
  let st0 = case_rng ~seed ~engine ~index:0 in
  (* every small length x contents x algorithm, default level; levels sampled *)
  for n = 0 to 64 do
    for kind = 0 to 3 do
      for alg = 1 to 5 do
        if want () then begin
          check acc ~klass:"small_every_length" alg None (content st0 kind n);
          if tier = "thorough" || (n + kind + alg) mod 5 = 0 then
            check acc ~klass:"small_every_length" alg levels.(1 + (n + kind + alg) mod 12) (content st0 kind n)
        end;
        incr idx
      done
    done
  done;
  (* every level x algorithm on a few buffers *)
  Array.iter (fun lvl -> for alg = 1 to 5 do
      List.iter (fun n -> if want () then check acc ~klass:"every_level" alg lvl (content st0 (n mod 4) n); incr idx) [ 0; 1; 7; 100; 5000 ]
    done) levels;
  let nr = if tier = "thorough" then 1500 else 60 in
  for _ = 1 to nr do
    if want () then begin
      let st = case_rng ~seed ~engine ~index:!idx in
      let n = (match rint st 4 with 0 -> rrange st 0 300 | 1 -> rrange st 300 8192 | 2 -> rrange st 8192 65536
                                  | _ -> if tier = "thorough" then rrange st 65536 2097152 else rrange st 0 20000) in
      (* structured: repeats of a random phrase with noise *)
      let phrase = rbytes st (rrange st 1 40) in
      let s = String.init n (fun i -> if rint st 20 = 0 then Char.chr (rint st 256) else phrase.[i mod String.length phrase]) in
      check acc ~klass:"random_structured" (rrange st 1 5) (rchoose st levels) s
    end;
    incr idx
  done
