(* C15: compression wrappers.  Every round trip runs in a forked child (an abort is an
   outcome, not a crash of the driver): mtbl_compress / mtbl_compress_level then
   mtbl_decompress must give back the input or report failure - never abort.  Names
   go through the real to_str/from_str and the model's tables. *)
open Common
open Mtbl_model
type string = Stdlib.String.t

external c_to_str : int -> string option = "vp_comp_to_str"
external c_from_str : string -> int option = "vp_comp_from_str"

let engine = "c15"
let rule = "library boundary: every round trip records the (level, capacity, source length) handed to zlib/lz4/zstd/snappy and checks the hypotheses of T15a on them; bound formulas of the model vs the libraries on 0..600, powers of two +-, random sizes; sizes above INT_MAX refused. buffers: every length 0..64 x {zeros, ramp, 0xFF, pseudo-random} and random structured buffers up to 64 KiB (quick) / 2 MiB (thorough) x 5 algorithms x {mtbl_compress, mtbl_compress_level with levels -10000,-5,-1,0,1,3,9,10,12,19,22,100}. Names: all table names in lower/upper/mixed case, near misses, unknown strings, out-of-range enum values. Non-trivial: length >= 1 or a level outside the library's range; distinct by (algorithm, level, content)."

let levels = [| None; Some (-10000); Some (-5); Some (-1); Some 0; Some 1; Some 3; Some 9; Some 10; Some 12; Some 19; Some 22; Some 100 |]

external c_rec_start : unit -> unit = "vp_rec_start"
external c_rec_stop : unit -> string = "vp_rec_stop"
external c_lib_bound : int -> int64 -> int64 = "vp_lib_bound"
external c_huge_call : int -> bool -> int64 -> int = "vp_huge_call"

(* Coq Z <-> int *)
let z_of_int i = if i = 0 then Z0 else if i > 0 then Zpos (pos_of_int i) else Zneg (pos_of_int (- i))
let int_of_z = function Z0 -> 0 | Zpos p -> int_of_pos p | Zneg p -> - (int_of_pos p)

let zstd_min = lazy (Int64.to_int (c_lib_bound 3 0L))
let zstd_max = lazy (Int64.to_int (c_lib_bound 4 0L))

(* library calls recorded in the child: (fn, level, srclen, cap, ret) *)
let parse_calls (s : string) =
  List.filter_map (fun item ->
    match List.map int_of_string (String.split_on_char ',' item) with
    | [ fn; lvl; src; cap; ret ] -> Some (fn, lvl, src, cap, ret)
    | _ -> None
    | exception _ -> None) (String.split_on_char ';' s)

(* result of one round trip in a forked child: outcome, calls made by the compression, calls made by the decompression *)
let roundtrip alg (lvl : int option) (s : string) : string * (int * int * int * int * int) list * (int * int * int * int * int) list =
  match in_child (fun () ->
      c_rec_start ();
      let c = (match lvl with None -> Wr.c_compress alg false 0 s | Some l -> Wr.c_compress alg true l s) in
      let cc = c_rec_stop () in
      match c with
      | None -> "COMPRESS_FAILED|" ^ cc ^ "|"
      | Some z ->
        c_rec_start ();
        let d = Wr.c_decompress alg z in
        let dc = c_rec_stop () in
        (match d with
         | None -> "DECOMPRESS_FAILED"
         | Some d -> if d = s then "OK" else "MISMATCH") ^ "|" ^ cc ^ "|" ^ dc) with
  | Exited (_, r) ->
    (match String.split_on_char '|' r with
     | [ o; cc; dc ] -> (o, parse_calls cc, parse_calls dc)
     | _ -> (r, [], []))
  | Signaled (sg, _) -> ((if sg = Sys.sigabrt then "SIGABRT" else Printf.sprintf "SIGNAL%d" sg), [], [])

let jcalls l = JL (List.map (fun (fn, lvl, src, cap, ret) -> JO [ "fn", JI fn; "level", JI lvl; "srclen", JI src; "cap", JI cap; "ret", JI ret ]) l)

(* the hypotheses under which T15a_* are proved, checked on what the wrapper actually handed to the library:
   capacity >= the library's own bound for that source length, level in the library's legal range, the
   decompressor offered exactly the original size.  [plan_compress] (the model) is compared as well; a mere
   difference from the plan with the hypotheses intact is counted, not failed (a roomier buffer is harmless). *)
let check_boundary acc case alg lvl n (cc : (int * int * int * int * int) list) (dc : (int * int * int * int * int) list) =
  let mm what extra = fail acc ~kind:"model_mismatch" ~what:("[C15] " ^ what) (JO ([ "case", Lazy.force case; "compress_calls", jcalls cc; "decompress_calls", jcalls dc ] @ extra)) in
  let level = (match lvl with Some l -> l | None -> int_of_z (default_level (n_of_int alg))) in
  let plan = plan_compress (z_of_int (Lazy.force zstd_min)) (z_of_int (Lazy.force zstd_max)) (n_of_int alg) (z_of_int level) (n_of_int n) in
  let comp = List.filter (fun (fn, _, _, _, _) -> fn = 1 || fn = 2 || fn = 4 || fn = 6 || fn = 10) cc in
  (match comp, plan with
   | [ (fn, l, src, cap, _) ], Some (pl, pc) ->
     let pl = int_of_z pl and pc = int_of_n pc in
     if src <> n then mm "the library was handed a different source length than the input" [];
     (match fn with
      | 1 | 2 ->
        let b = Int64.to_int (c_lib_bound 0 (Int64.of_int src)) in
        if cap < b then mm "LZ4 destination capacity below LZ4_compressBound (hypothesis of T15a_compress_succeeds)" [ "bound", JI b ];
        (* LZ4_compress_HC accepts every level: a different level is counted, not failed *)
        if fn = 2 && l <> pl then bump acc "lz4hc_level_differs_from_plan";
        if cap <> pc then bump acc "capacity_differs_from_plan"
      | 4 ->
        let b = Int64.to_int (c_lib_bound 1 (Int64.of_int src)) in
        if cap < b then mm "zstd destination capacity below ZSTD_compressBound (hypothesis of T15a_compress_succeeds)" [ "bound", JI b ];
        if l < Lazy.force zstd_min || l > Lazy.force zstd_max then mm "zstd level outside [ZSTD_minCLevel, ZSTD_maxCLevel] (T15a_levels)" [];
        if l <> pl then bump acc "zstd_level_differs_from_plan";
        if cap <> pc then bump acc "capacity_differs_from_plan"
      | 6 ->
        let b = Int64.to_int (c_lib_bound 2 (Int64.of_int src)) in
        if cap < b then mm "snappy destination capacity below snappy_max_compressed_length (hypothesis of T15a_compress_succeeds)" [ "bound", JI b ];
        if cap <> pc then bump acc "capacity_differs_from_plan"
      | _ ->
        (* zlib: deflateInit level, deflateBound of this stream, deflate's avail_out *)
        let init = List.filter (fun (f, _, _, _, _) -> f = 8) cc and bound = List.filter (fun (f, _, _, _, _) -> f = 9) cc in
        (match init with
         | [ (_, il, _, _, r) ] ->
           if il < -1 || il > 9 then mm "deflateInit level outside -1..9 (T15a_levels)" [];
           if il <> pl then bump acc "zlib_level_differs_from_plan";
           if r <> 0 then mm "deflateInit did not return Z_OK" []
         | _ -> mm "expected exactly one deflateInit call" []);
        (match bound with
         | (_, _, bsrc, _, b) :: _ ->
           if bsrc < n then mm "deflateBound asked for a shorter source than the input" [];
           if cap < b then mm "deflate destination capacity below deflateBound (hypothesis of T15a_never_aborts)" [ "bound", JI b ]
         | [] -> bump acc "zlib_no_deflateBound_call";
           (* no bound requested: compare with the documented worst case of the default wrapper *)
           if cap < n + (n lsr 12) + (n lsr 14) + (n lsr 25) + 13 then mm "deflate destination capacity below zlib's documented worst case (hypothesis of T15a_never_aborts)" []))
   | [], None -> ()
   | [], Some _ -> if n <= 2113929216 then mm "no library compression call where the model makes one" []
   | _, _ -> mm "number of library compression calls differs from the model (one per wrapper call)" []);
  (* decompression: the decompressor is offered exactly the original size (lz4 prefix, zstd frame size, snappy length) *)
  List.iter (fun (fn, _, _, cap, _) ->
    if (fn = 3 || fn = 5 || fn = 7) && cap <> n then
      mm "the decompressor was offered a capacity different from the original size (hypothesis of T15a_roundtrip)" []) dc;
  (* zlib grow loop: how often it was taken *)
  let infl = List.filter (fun (fn, _, _, _, _) -> fn = 11) dc in
  if infl <> [] then begin
    bumpn acc "inflate_calls" (List.length infl);
    if List.length infl > 1 then bump acc "inflate_grow_loop_taken"
  end

let check acc ~klass alg lvl (s : string) =
  let case = lazy (JO [ "alg", JI alg; "level", (match lvl with None -> JS "default" | Some l -> JI l); "len", JI (String.length s);
                        "head", JS (hex (String.sub s 0 (min 16 (String.length s)))) ]) in
  record acc ~key:(Printf.sprintf "%d/%s/%s" alg (match lvl with None -> "d" | Some l -> string_of_int l) (Digest.string s))
    ~nontrivial:(String.length s >= 1 || lvl <> None) ~klass case;
  let (r, cc, dc) = roundtrip alg lvl s in
  bump acc ("outcome_" ^ r);
  (* model: with the documented library contracts the wrappers succeed and round-trip for inputs below INT_MAX *)
  if r <> "OK" then begin
    fail acc ~kind:"model_mismatch" ~what:"[C15] round-trip outcome (model: succeeds)" (JO [ "case", Lazy.force case; "impl", JS r ]);
    if r <> "COMPRESS_FAILED" then
      fail acc ~kind:"spec_violation" ~what:("[C15] compress/decompress did not return the input: " ^ r) (Lazy.force case)
  end;
  if r = "OK" || r = "COMPRESS_FAILED" || r = "DECOMPRESS_FAILED" || r = "MISMATCH" then
    check_boundary acc case alg lvl (String.length s) cc dc

(* the bound formulas written in model/Compress.v against the libraries' own functions *)
let check_bounds acc ~tier =
  let pts = ref [] in
  for i = 0 to 600 do pts := i :: !pts done;
  for k = 8 to 31 do List.iter (fun d -> let v = (1 lsl k) + d in if v >= 0 && v <= 2147483647 then pts := v :: !pts) [ -2; -1; 0; 1; 2; 254; 255; 256 ] done;
  List.iter (fun v -> pts := v :: !pts) [ 131071; 131072; 131073; 129024; 2113929215; 2113929216; 2113929217; 2147483646; 2147483647; 65535 * 255; 6 * 1000003 ];
  let st = case_rng ~seed:1 ~engine ~index:77 in
  for _ = 1 to (if tier = "thorough" then 200000 else 5000) do pts := rint st 0x3fffffff * 2 + rint st 2 :: !pts done;
  List.iter (fun v ->
    record acc ~key:(Printf.sprintf "bound%d" v) ~nontrivial:true ~klass:"bound_formulas" (lazy (JO [ "n", JI v ]));
    let chk name which m =
      let r = Int64.to_int (c_lib_bound which (Int64.of_int v)) in
      if r <> int_of_n m then
        fail acc ~kind:"model_mismatch" ~what:("[C15] " ^ name ^ ": the formula in model/Compress.v differs from the library") (JO [ "n", JI v; "library", JI r; "model", JI (int_of_n m) ]) in
    chk "LZ4_compressBound" 0 (lz4_bound (n_of_int v));
    chk "ZSTD_compressBound" 1 (zstd_bound (n_of_int v));
    chk "snappy_max_compressed_length" 2 (snappy_bound (n_of_int v))) !pts

(* sizes above INT_MAX: lz4 / lz4hc / zstd compression and lz4 / zstd decompression refuse at once (the model's
   gates); the buffer is a sparse zero mapping that a correct wrapper never reads *)
let check_huge acc =
  List.iter (fun (alg, dec) ->
    let case = lazy (JO [ "alg", JI alg; "decompress", JB dec; "size", JS "INT_MAX + 1" ]) in
    record acc ~key:(Printf.sprintf "huge%d%b" alg dec) ~nontrivial:true ~klass:"above_INT_MAX" case;
    let old = !child_time_limit in
    child_time_limit := 60;
    let r = in_child (fun () -> string_of_int (c_huge_call alg dec 2147483648L)) in
    child_time_limit := old;
    (match r with
     | Exited (_, "0") -> ()
     | Exited (_, "-1") -> bump acc "huge_mapping_unavailable"
     | Exited (_, o) -> fail acc ~kind:"model_mismatch" ~what:"[C15] a size above INT_MAX was not refused (the model's INT_MAX gate)" (JO [ "case", Lazy.force case; "impl", JS o ])
     | Signaled (sg, _) ->
       fail acc ~kind:"model_mismatch" ~what:"[C15] a size above INT_MAX was not refused (the model's INT_MAX gate)" (JO [ "case", Lazy.force case; "signal", JI sg ]);
       if sg = Sys.sigabrt then fail acc ~kind:"spec_violation" ~what:"[C15] compression wrapper aborted on a buffer larger than INT_MAX" (Lazy.force case)))
    [ (3, false); (4, false); (5, false); (3, true); (4, true); (5, true) ]

let content st kind n = match kind with
  | 0 -> String.make n '\000' | 1 -> String.init n (fun i -> Char.chr (i land 255))
  | 2 -> String.make n '\255' | _ -> rbytes st n

let check_names acc =
  let names = [ "none"; "snappy"; "zlib"; "lz4"; "lz4hc"; "zstd" ] in
  let variants = List.concat_map (fun n -> [ n; String.uppercase_ascii n; String.capitalize_ascii n; n ^ " "; " " ^ n; n ^ "x";
                                             String.sub n 0 (String.length n - 1); n ^ "\x00x" ]) names
                 @ [ ""; "gzip"; "lz"; "lz4h"; "LZ4HC"; "ZsTd"; "z"; "none\n"; "snappyy"; "\xffzlib" ] in
  List.iter (fun s ->
    if not (String.contains s '\000') then begin
      record acc ~key:("name" ^ s) ~nontrivial:true ~klass:"names" (lazy (JO [ "name", jbytes s ]));
      let i = c_from_str s in
      let m = (match compression_type_from_str (coq_string_of s 0) with Some t -> Some (int_of_n t) | None -> None) in
      if i <> m then fail acc ~kind:"model_mismatch" ~what:"[C15] mtbl_compression_type_from_str" (JO [ "name", jbytes s ]);
      (* spec: accepted iff equal, ignoring ASCII case, to one of the six names *)
      let expect = (let l = String.lowercase_ascii s in
                    let rec idx n = function [] -> None | x :: tl -> if x = l then Some n else idx (n + 1) tl in idx 0 names) in
      if i <> expect then fail acc ~kind:"spec_violation" ~what:"[C15] from_str accepts/refuses the wrong names" (JO [ "name", jbytes s ])
    end) variants;
  for t = -1 to 8 do
    record acc ~key:(Printf.sprintf "enum%d" t) ~nontrivial:true ~klass:"names" (lazy (JO [ "enum", JI t ]));
    let i = c_to_str t in
    let m = (if t < 0 then None else match compression_type_to_str (n_of_int t) with Some s -> Some (ocaml_string_of s) | None -> None) in
    if i <> m then fail acc ~kind:"model_mismatch" ~what:"[C15] mtbl_compression_type_to_str" (JO [ "enum", JI t ]);
    (match i with
     | Some s -> if c_from_str s <> Some t then fail acc ~kind:"spec_violation" ~what:"[C15] name does not round-trip through to_str/from_str" (JO [ "enum", JI t ])
     | None -> if t >= 0 && t <= 5 then fail acc ~kind:"spec_violation" ~what:"[C15] a defined algorithm has no name" (JO [ "enum", JI t ]))
  done

external c_codec_mt_stress : int -> int -> int -> int = "vp_codec_mt_stress"

(* round trip from several threads at once: each thread compresses and decompresses its own buffers *)
let check_threads acc ~tier =
  for alg = 1 to 5 do
    let case = lazy (JO [ "algorithm", JI alg; "threads", JI 8; "rounds_per_thread", JI (if tier = "thorough" then 400 else 60) ]) in
    record acc ~key:(Printf.sprintf "mt%d" alg) ~nontrivial:true ~klass:"concurrent_round_trip" case;
    (match in_child (fun () -> string_of_int (c_codec_mt_stress alg 8 (if tier = "thorough" then 400 else 60))) with
     | Exited (_, "0") -> ()
     | Exited (_, s) -> fail acc ~kind:"spec_violation" ~what:("[C15,C14] compress/decompress round trip fails when several threads use the library at once (" ^ s ^ " failures)") (Lazy.force case)
     | Signaled (sg, _) -> fail acc ~kind:"spec_violation" ~what:(Printf.sprintf "[C15,C14] the process stopped (signal %d) while several threads compressed and decompressed their own buffers" sg) (Lazy.force case))
  done

(* many round trips in ONE process and on one thread, every algorithm, buffers of very different sizes in an order that
   alternates empty, tiny, large and boundary-sized ones: a wrapper that carries state from one call to the next (a
   remembered size, a reused buffer, a cached context) shows here and nowhere in the forked single round trips *)
let check_sequences acc st ~tier =
  let sizes = [ 0; 1; 5000; 0; 65535; 65536; 131070; 0; 64; 200000; 1; 0; 65534; 300; 0; 1048576; 7 ] in
  let sizes = if tier = "thorough" then sizes @ [ 196605; 0; 2097152; 0; 3 ] else sizes in
  for alg = 1 to 5 do
    Array.iter (fun lvl ->
      let case = lazy (JO [ "op", JS "round trips in one process"; "algorithm", JI alg; "level", (match lvl with None -> JNull | Some l -> JI l); "sizes", JL (List.map (fun n -> JI n) sizes) ]) in
      record acc ~key:(Printf.sprintf "seq-%d-%s" alg (match lvl with None -> "d" | Some l -> string_of_int l)) ~nontrivial:true ~klass:"sequence_one_process" case;
      let r = in_child (fun () ->
          let bad = ref "" in
          List.iteri (fun i n ->
            if !bad = "" then begin
              let s = content st (i mod 4) n in
              (match (match lvl with None -> Wr.c_compress alg false 0 s | Some l -> Wr.c_compress alg true l s) with
               | None -> bad := Printf.sprintf "compress failed at call %d (%d bytes)" i n
               | Some z -> (match Wr.c_decompress alg z with
                   | None -> bad := Printf.sprintf "decompress failed at call %d (%d bytes)" i n
                   | Some d -> if d <> s then bad := Printf.sprintf "round trip differs at call %d (%d bytes)" i n);
                 (* a decompression that FAILS in the middle of the sequence (payload damaged behind an intact frame
                    header; a truncated frame) must leave nothing behind: whatever it returns, the round trips that
                    follow still succeed (a context cached across calls and released on the error path shows here) *)
                 let zl = String.length z in
                 (* not for zlib (algorithm 2): its wrapper asserts on Z_DATA_ERROR and, on a truncated stream, doubles
                    the output buffer until the allocation fails - both stop the process, so nothing follows (observation O9
                    in DESIGN.md 11.5; a damaged block stopping the process is what C12 asks for) *)
                 if zl >= 24 && i mod 2 = 1 && alg <> 2 then begin
                   let dmg = Bytes.of_string z in
                   Bytes.set dmg (zl / 2) (Char.chr (Char.code (Bytes.get dmg (zl / 2)) lxor 0x55));
                   Bytes.set dmg (zl - 5) (Char.chr (Char.code (Bytes.get dmg (zl - 5)) lxor 0xff));
                   ignore (Wr.c_decompress alg (Bytes.to_string dmg));
                   ignore (Wr.c_decompress alg (String.sub z 0 (zl - 7)))
                 end)
            end) sizes;
          if !bad = "" then "OK" else !bad) in
      (match r with
       | Exited (_, "OK") -> ()
       | Exited (_, msg) -> fail acc ~kind:"spec_violation" ~what:"[C15] a compression round trip fails when it follows other round trips in the same process" (JO [ "case", Lazy.force case; "what", JS msg ])
       | Signaled (sg, _) -> fail acc ~kind:"spec_violation" ~what:"[C15] the compression wrapper stopped the process in a sequence of round trips" (JO [ "case", Lazy.force case; "signal", JI sg ])))
      [| None; Some 0; Some 1; Some (-5); Some 9 |]
  done

let run ~tier ~seed ~only acc =
  let idx = ref 0 in
  let want () = cur_index := !idx; (match only with None -> true | Some i -> i = !idx) in
  if want () then check_names acc; incr idx;
  if want () then check_threads acc ~tier; incr idx;
  if want () then check_bounds acc ~tier; incr idx;
  if want () then check_huge acc; incr idx;
  if want () then check_sequences acc (case_rng ~seed ~engine ~index:!idx) ~tier; incr idx;
  let st0 = case_rng ~seed ~engine ~index:0 in
  (* every small length x contents x algorithm, default level; levels sampled *)
  for n = 0 to 64 do
    for kind = 0 to 3 do
      for alg = 1 to 5 do
        if want () then begin
          check acc ~klass:"small_every_length" alg None (content st0 kind n);
          if tier = "thorough" || (n + kind + alg) mod 5 = 0 then
            check acc ~klass:"small_every_length" alg levels.(1 + (n + kind + alg) mod 12) (content st0 kind n)
        end;
        incr idx
      done
    done
  done;
  (* every level x algorithm on a few buffers *)
  Array.iter (fun lvl -> for alg = 1 to 5 do
      List.iter (fun n -> if want () then check acc ~klass:"every_level" alg lvl (content st0 (n mod 4) n); incr idx) [ 0; 1; 7; 100; 5000 ]
    done) levels;
  let nr = if tier = "thorough" then 1500 else 60 in
  for _ = 1 to nr do
    if want () then begin
      let st = case_rng ~seed ~engine ~index:!idx in
      let n = (match rint st 4 with 0 -> rrange st 0 300 | 1 -> rrange st 300 8192 | 2 -> rrange st 8192 65536
                                  | _ -> if tier = "thorough" then rrange st 65536 2097152 else rrange st 0 20000) in
      (* structured: repeats of a random phrase with noise *)
      let phrase = rbytes st (rrange st 1 40) in
      let s = String.init n (fun i -> if rint st 20 = 0 then Char.chr (rint st 256) else phrase.[i mod String.length phrase]) in
      check acc ~klass:"random_structured" (rrange st 1 5) (rchoose st levels) s
    end;
    incr idx
  done
