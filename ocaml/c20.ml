(* C20: the writer under arbitrary write(2) outcome sequences.  writer.c is
   compiled with write renamed to the shim in stubs.c; the schedule of outcomes
   is generated here and replayed by the model (model/WriteLoop.v on the model
   writer's buffers).  Spec: the finished file equals the fault-free file; a hard
   error / zero return met before completion stops the process (SIGABRT). *)
open Common
open Mtbl_model
type string = Stdlib.String.t
open Gen

external c_set_sched : int array -> unit = "vp_set_write_schedule"
external c_write_calls : unit -> int = "vp_write_calls_made"
external c_set_write_errno : int -> int -> unit = "vp_set_write_errno"

let engine = "c20"
let rule = "cases = (writer configuration, add sequence, write(2) outcome schedule). Schedules: for small files EVERY single fault (partial 1 / half / n-1, EINTR x1, EINTR x3, zero return, hard error) at EVERY write call index, also with a stale errno (EINTR / EIO in errno when the writer starts and left there by writes that succeed); random multi-fault schedules (partial any length, EINTR bursts, occasional hard error / zero). Non-trivial: schedule contains at least one non-full outcome; distinct by (config, ops, schedule)."

let vp_full = 0x7fffffff
let outcome_of_int i : outcome =
  if i = vp_full then OFull else if i = -1 then OEintr else if i = -2 then OErr else if i = 0 then OZero else OPartial (n_of_int i)

let sched_json s = JL (Array.to_list (Array.map (fun i -> if i = vp_full then JS "full" else if i = -1 then JS "EINTR" else if i = -2 then JS "EIO" else if i = 0 then JS "zero" else JI i) s))

(* run the real writer under a schedule; the file is left at [path] *)
let run_impl_sched ?(errno = (0, 0)) (c : wcfg) ops path (sched : int array) : child_end =
  (try Sys.remove path with _ -> ());
  in_child (fun () ->
    let fd = Wr.c_open_rw path true in
    if fd < 0 then "OPENFAIL" else begin
      if Int64.compare c.prefix 0L > 0 then ignore (Wr.c_write_str fd (Wr.prefix_pattern (Int64.to_int c.prefix)));
      (* with a pool the data blocks are written by the result-handler thread, in order; the sequence of write(2) calls is the same *)
      let pool = if c.pool > 0 then Wr.c_pool_init c.pool else 0n in
      let w = Wr.c_writer_init_fd fd
          (c.comp, (c.level <> None), (match c.level with Some l -> l | None -> 0),
           (c.block_size <> None), (match c.block_size with Some b -> b | None -> 0),
           (c.interval <> None), (match c.interval with Some i -> i | None -> 0), pool) in
      c_set_sched sched;
      c_set_write_errno (fst errno) (snd errno);
      List.iter (fun (k, v) -> ignore (Wr.c_writer_add w k v)) ops;
      Wr.c_writer_destroy w;
      if c.pool > 0 then Wr.c_pool_destroy pool;
      let calls = c_write_calls () in
      c_set_sched [||];
      c_set_write_errno 0 0;
      Wr.c_close fd;
      Printf.sprintf "DONE %d" calls
    end)

let eno_of_int = function 1 -> E_intr | 2 -> E_other | _ -> E_none
let eno_name = function 1 -> "EINTR" | 2 -> "EIO" | _ -> "untouched"

(* errno = (what errno holds on entry, what a successful write leaves in it): 0 untouched / 1 EINTR / 2 EIO *)
let check ?(errno = (0, 0)) acc ~klass (c : wcfg) ops (clean_bytes : string) (mchunks : n list list) (sched : int array) =
  let nontrivial = Array.exists (fun i -> i <> vp_full) sched in
  let case = lazy (JO [ "cfg", cfg_json c; "ops", entries_json ops; "schedule", sched_json sched;
                        "errno_on_entry", JS (eno_name (fst errno)); "errno_after_successful_write", JS (eno_name (snd errno)) ]) in
  record acc ~key:(json_to_string (Lazy.force case)) ~nontrivial ~klass case;
  if errno <> (0, 0) then bump acc "stale_errno_cases";
  let path = Filename.concat (Wr.tmpdir ()) (Printf.sprintf "c20_%d.mtbl" (Unix.getpid ())) in
  let os = Array.to_list (Array.map outcome_of_int sched) in
  let model = write_chunks os [] mchunks in
  (* the errno-level model (model/WriteLoopErrno.v) with this entry value and this behaviour of successful writes:
     T20c_errno_level_refines says it is the outcome-level model *)
  let model_e = strip_e (write_chunks_e (fun _ e -> if snd errno = 0 then e else eno_of_int (snd errno)) os (eno_of_int (fst errno)) [] mchunks) in
  if model_e <> model then
    fail acc ~kind:"model_mismatch" ~what:"[C20] errno-level model differs from the outcome-level model (T20c says it cannot)" (Lazy.force case);
  let iend = run_impl_sched ~errno c ops path sched in
  let casej () = Lazy.force case in
  (match iend, model with
   | Signaled (s, _), Abort -> bump acc "abort_both"
   | Signaled (s, _), _ ->
     fail acc ~kind:"model_mismatch" ~what:"[C20] implementation stopped, model completes" (JO [ "case", casej (); "signal", JI s ]);
     if not (Array.exists (fun i -> i = -2 || i = 0) sched) then
       fail acc ~kind:"spec_violation" ~what:"[C20] writer stopped although write(2) only returned short counts / EINTR" (JO [ "case", casej (); "signal", JI s ])
   | Exited (_, s), m ->
     let bytes = Wr.read_table_region path c.prefix in
     (match m with
      | Ok (f, _) ->
        bump acc "complete_both";
        if string_of_nl f <> bytes then
          fail acc ~kind:"model_mismatch" ~what:"[C20] file bytes under this schedule" (JO [ "case", casej (); "impl_len", JI (String.length bytes); "model_len", JI (List.length f) ])
      | _ ->
        fail acc ~kind:"model_mismatch" ~what:"[C20] implementation completes, model aborts" (JO [ "case", casej () ]);
        fail acc ~kind:"spec_violation" ~what:"[C20] a hard write error / zero return was met before the data was written, yet the writer reported success" (JO [ "case", casej () ]));
     if (match m with Ok _ -> true | _ -> false) && bytes <> clean_bytes then
       fail acc ~kind:"spec_violation" ~what:"[C20,C01] finished file differs from the one written without short writes/EINTR"
         (JO [ "case", casej (); "len", JI (String.length bytes); "clean_len", JI (String.length clean_bytes) ]));
  (try Sys.remove path with _ -> ())

let run ~tier ~seed ~only acc =
  let idx = ref 0 in
  let want () = cur_index := !idx; (match only with None -> true | Some i -> i = !idx) in
  let base = { comp = 0; level = None; block_size = Some 1024; interval = Some 4; pool = 0; prefix = 0L } in
  let small_cfgs = [ base; { base with comp = 1; prefix = 13L }; { base with comp = 2 }; { base with pool = 2 }; { base with comp = 2; pool = 1; prefix = 5L } ] in
  List.iteri (fun ci c ->
    let st = case_rng ~seed:(seed + 1000 * ci) ~engine ~index:0 in
    let ops = rentries_blocks st ~nkeys:(if ci = 0 then 12 else 7) ~vlen:300 in
    let path = Filename.concat (Wr.tmpdir ()) (Printf.sprintf "c20c_%d.mtbl" (Unix.getpid ())) in
    (match run_impl_sched c ops path [||] with
     | Exited (_, s) when String.length s > 5 ->
       let ncalls = int_of_string (String.sub s 5 (String.length s - 5)) in
       let clean = Wr.read_table_region path c.prefix in
       let mo = Wr.model_opts c in
       (match writer_session Wr.oracle_compress_default Wr.oracle_compress_level mo (n_of_u64 c.prefix)
                (List.map (fun (k, v) -> (nl_of_string k, nl_of_string v)) ops) with
        | Ok (w, _) ->
          let chunks = writer_chunks w in
          if List.length chunks <> ncalls then
            acc.notes <- ("write_calls_differ_from_model_chunks", JL [ JI ncalls; JI (List.length chunks) ]) :: acc.notes;
          (* exhaustive single faults at every call *)
          let sizes = Array.of_list (List.map List.length chunks) in
          for call = 0 to ncalls - 1 do
            let n = if call < Array.length sizes then sizes.(call) else 8 in
            let faults = [ [| 1 |]; [| max 1 (n / 2) |]; [| max 1 (n - 1) |]; [| -1 |]; [| -1; -1; -1 |]; [| 0 |]; [| -2 |]; [| 1; -2 |]; [| -1; 1; -1; 2 |] ] in
            List.iter (fun f ->
              if want () then check acc ~klass:"single_fault_every_call" c ops clean chunks
                  (Array.append (Array.make call vp_full) f);
              incr idx) faults;
            (* the same with a stale errno: EINTR (or EIO) in errno when the writer starts and after every write that
               succeeds - a short write is a success and must not be retried as if interrupted *)
            List.iteri (fun fi f ->
              if want () then check ~errno:(1 + (call + fi) mod 2, 1 + fi mod 2) acc ~klass:"single_fault_every_call_stale_errno" c ops clean chunks
                  (Array.append (Array.make call vp_full) f);
              incr idx) [ [| 1 |]; [| max 1 (n / 2) |]; [| 1; -2 |]; [| -1; 1; -1; 2 |]; [| 0 |] ]
          done;
          (* random multi-fault schedules *)
          let nr = if tier = "thorough" then 4000 else 150 in
          for _ = 1 to nr do
            if want () then begin
              let st = case_rng ~seed ~engine ~index:!idx in
              let len = rrange st 1 (3 * ncalls) in
              let hard = rint st 4 = 0 in
              let sched = Array.init len (fun _ ->
                match rint st 10 with
                | 0 | 1 | 2 -> vp_full
                | 3 | 4 -> -1
                | 5 when hard -> if rbool st then -2 else 0
                | 6 -> 1
                | _ -> rrange st 1 600) in
              check ~errno:(if rint st 3 = 0 then (rint st 3, rint st 3) else (0, 0)) acc ~klass:"random_multi_fault" c ops clean chunks sched
            end;
            incr idx
          done
        | _ -> fail acc ~kind:"model_mismatch" ~what:"[C20] model writer aborts on the base case" JNull)
     | _ -> fail acc ~kind:"model_mismatch" ~what:"[C20] fault-free run of the writer failed" JNull);
    (try Sys.remove path with _ -> ())) small_cfgs
