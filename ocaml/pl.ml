(* Engine "pl": the thread pool under controlled schedules (C13).  build/bin/poolsched runs
   the real threadpool.c with every pthread operation turned into a scheduling point; this
   engine explores schedules (default, seeded random with and without spurious wake-ups,
   every single preemption of the default schedule, pairs of preemptions on small
   programs), replays each trace on the LTS model (model/Pool.v) comparing after EVERY
   step the operation performed and the set of enabled threads, and checks on the trace
   itself: no deadlock, no assertion, every result delivered exactly once (in dispatch
   order for ordered handlers), never more workers than the maximum. *)
open Common
open Mtbl_model
type string = Stdlib.String.t

let engine = "pl"
let rule = "cases = (pool size 1..4, caller program over 1..3 result handlers (ordered/unordered, sharing the pool) with 0..6 jobs, schedule). Schedules: the default one; every schedule that differs from it by ONE preemption (at every step, every other enabled thread); seeded random schedules with random signal targets, with and without spurious wake-ups; thorough: two preemptions on the smaller programs. Non-trivial: at least one dispatch; distinct by (pool size, program, schedule)."

let bin () = Filename.concat (try Sys.getenv "VERIF_BUILD" with Not_found -> "/verif/build") "bin/poolsched"

type line = Step of int * int * string * string * int list | Wake of int | Disp of int * int | Res of int * int | End of int * int | Dead | Infeasible | Other of string
let parse_line (l : string) : line =
  let ws = List.filter (fun x -> x <> "") (String.split_on_char ' ' l) in
  match ws with
  | "S" :: n :: t :: op :: ob :: "|" :: en -> Step (int_of_string n, int_of_string t, op, ob, List.map int_of_string en)
  | [ "W"; u ] -> Wake (int_of_string u)
  | [ "D"; k; j ] -> Disp (int_of_string k, int_of_string j)
  | [ "R"; h; j ] -> Res (int_of_string h, int_of_string j)
  | "END" :: a :: b :: _ -> (let v s = int_of_string (List.nth (String.split_on_char '=' s) 1) in End (v a, v b))
  | "DEADLOCK" :: _ -> Dead | "INFEASIBLE" :: _ -> Infeasible
  | _ -> Other l

let max_trace_lines = 400000

let run_harness ~maxt ~policy ~seed ~spurious ~program ~(forced : int list) : string * line list =
  (* bounded: a program of the pool that never finishes (a changed pool that keeps scheduling steps for ever) is cut off
     after max_trace_lines lines - the unchanged pool needs a few thousand at most - and after 120 s of wall clock *)
  let cmd = Printf.sprintf "timeout -s KILL 120 %s %d %s %d %d %s %s 2>/dev/null" (Filename.quote (bin ())) maxt policy seed (if spurious then 1 else 0)
      (Filename.quote program) (String.concat " " (List.map string_of_int forced)) in
  let ic = Unix.open_process_in cmd in
  let lines = ref [] in
  let nlines = ref 0 in
  (try while !nlines < max_trace_lines do lines := parse_line (input_line ic) :: !lines; incr nlines done with End_of_file -> ());
  let runaway = !nlines >= max_trace_lines in
  let st = Unix.close_process_in ic in
  ((match st with _ when runaway -> "runaway" | Unix.WEXITED 137 -> "runaway"
                | Unix.WEXITED 0 -> "ok" | Unix.WEXITED 3 -> "deadlock" | Unix.WEXITED 4 -> "infeasible"
                | Unix.WEXITED c -> if c >= 128 then "abort" else Printf.sprintf "exit%d" c
                | Unix.WSIGNALED _ -> "abort" | Unix.WSTOPPED _ -> "stopped"), List.rev !lines)

let cmds_of_program (p : string) : cmd list =
  List.map (fun tok ->
    match tok.[0] with
    | 'h' -> NewHandler (tok.[1] = 'O')
    | 'd' -> Dispatch (nat_of_int (int_of_string (String.sub tok 1 (String.length tok - 1))))
    | 'f' -> Finish (nat_of_int (int_of_string (String.sub tok 1 (String.length tok - 1))))
    | _ -> DestroyPool) (String.split_on_char ',' p)

let obj_name = function
  | OPoolM -> "pool.m" | OPoolC -> "pool.c" | OWm i -> Printf.sprintf "w%d.m" (int_of_nat i) | OWc i -> Printf.sprintf "w%d.c" (int_of_nat i)
  | OQm j -> Printf.sprintf "q%d.m" (int_of_nat j) | OQc j -> Printf.sprintf "q%d.c" (int_of_nat j)
  | OThread t -> Printf.sprintf "t%d" (int_of_nat t) | ONone -> "-"
let op_name = function KStart -> "start" | KLock -> "lock" | KUnlock -> "unlock" | KWait -> "wait" | KReacq -> "reacq"
                      | KSignal -> "signal" | KCreate -> "create" | KJoin -> "join" | KExit -> "exit"

(* replay a trace on the model; returns the first discrepancy *)
let replay ~maxt ~program (lines : line list) : string option =
  let st = ref (pool_init (n_of_int maxt) (cmds_of_program program)) in
  let stash = ref [] in
  let err = ref None in
  let arr = Array.of_list lines in
  let n = Array.length arr in
  let i = ref 0 in
  while !err = None && !i < n do
    (match arr.(!i) with
     | Step (k, t, op, ob, en) ->
       let men = List.map int_of_nat (enabled_set !st) in
       if men <> en then err := Some (Printf.sprintf "step %d: enabled threads: implementation {%s}, model {%s}" k
                                        (String.concat "," (List.map string_of_int en)) (String.concat "," (List.map string_of_int men)))
       else if op = "spurious" then
         (match pspurious !st (nat_of_int t) with Some s' -> st := s' | None -> err := Some (Printf.sprintf "step %d: model thread %d is not blocked on a condition" k t))
       else begin
         let wake = (if !i + 1 < n then (match arr.(!i + 1) with Wake u -> Some (nat_of_int u) | _ -> None) else None) in
         (* hypothesis sched_wf of the C13 theorems: the thread a signal wakes is blocked on a condition variable *)
         (match wake with
          | Some u when op = "signal" ->
            if (gett !st u).t_blocked = None then
              err := Some (Printf.sprintf "step %d: the signal woke thread %d, which is not blocked in the model (hypothesis sched_wf of T13 does not hold on this trace)" k (int_of_nat u))
          | _ -> ());
         (* hypothesis sched_fair of T13d_fair (no hang): a signal wakes a thread blocked on THAT condition variable whenever
            there is one - pthread_cond_signal's guarantee, which the schedule shim must honour (extracted wake_fairb,
            proved sound in proofs/PoolFairEx.v) *)
         if !err = None && op = "signal" && not (wake_fairb !st (nat_of_int t) wake) then
           err := Some (Printf.sprintf "step %d: the signal of thread %d %s although the model has %s (hypothesis sched_fair of T13d_fair does not hold on this trace)" k t
                          (match wake with Some u -> Printf.sprintf "woke thread %d" (int_of_nat u) | None -> "woke nobody")
                          (match wake with Some _ -> "that thread waiting on another condition" | None -> "a waiter on that condition"));
         (* (no check of sched_causal here: like the model, the schedule shim makes a created thread runnable as soon as its
            creator has reached pthread_create, so traces in which it starts before the creator's create step are explored
            on purpose - they stand for the new thread running before pthread_create returns; the theorem for ALL
            schedules is T14_race_free_hb, in which the creator's initialising accesses, which precede the call, are
            ordered before the new thread) *)
         if !err = None then
         (match pstep !st (nat_of_int t) wake !stash with
          | None -> err := Some (Printf.sprintf "step %d: thread %d is not enabled in the model" k t)
          | Some (((s', mop), mob), stash') ->
            if op_name mop <> op || obj_name mob <> ob then
              err := Some (Printf.sprintf "step %d: thread %d performs %s %s, model %s %s" k t op ob (op_name mop) (obj_name mob))
            else (st := s'; stash := stash'))
       end
     | _ -> ());
    incr i
  done;
  (match !err with
   | Some _ -> ()
   | None ->
     let ires = List.filter_map (function Res (h, j) -> Some (h, j) | _ -> None) lines in
     let mres = List.map (fun (h, j) -> (int_of_nat h, int_of_n j)) (!st).ps_delivered in
     if ires <> mres then err := Some "deliveries differ between implementation and model"
     else if (!st).ps_abort then err := Some "the model reaches a failing assertion");
  !err

(* specification on a trace *)
let spec_check (status : string) ~maxt ~program (lines : line list) : string option =
  if status = "deadlock" then Some "deadlock: no thread can run although the program has not finished (a close/destroy call would hang)"
  else if status = "abort" then Some "an assertion of threadpool.c failed"
  else if status = "runaway" then Some (Printf.sprintf "the program does not finish: more than %d scheduling steps or 120 s (a close/destroy call would never return)" max_trace_lines)
  else if status <> "ok" then None
  else begin
    let disp = List.filter_map (function Disp (k, j) -> Some (k, j) | _ -> None) lines in
    let res = List.filter_map (function Res (h, j) -> Some (h, j) | _ -> None) lines in
    let ordered = Array.of_list (List.filter_map (fun tok -> if tok.[0] = 'h' then Some (tok.[1] = 'O') else None) (String.split_on_char ',' program)) in
    let bad = ref None in
    Array.iteri (fun h ord ->
      let d = List.filter_map (fun (k, j) -> if k = h then Some j else None) disp in
      let r = List.filter_map (fun (k, j) -> if k = h then Some j else None) res in
      if ord then (if r <> d then bad := Some (Printf.sprintf "ordered handler %d: results delivered [%s], dispatched [%s]" h
                                                  (String.concat "," (List.map string_of_int r)) (String.concat "," (List.map string_of_int d))))
      else if List.sort compare r <> List.sort compare d then
        bad := Some (Printf.sprintf "unordered handler %d: results delivered {%s}, dispatched {%s}" h
                       (String.concat "," (List.map string_of_int r)) (String.concat "," (List.map string_of_int d)))) ordered;
    (match List.rev lines with
     | End (_, workers) :: _ -> if workers > maxt then bad := Some (Printf.sprintf "%d worker threads created with a maximum of %d" workers maxt)
     | _ -> bad := Some "the run did not reach its end");
    !bad
  end

let check acc ~klass ~maxt ~policy ~seed ~spurious ~program ~forced =
  (* hypothesis prog_wf of the C13 theorems (the extracted test): handlers exist, no dispatch after finish, destroy last *)
  if not (prog_wf (cmds_of_program program)) then
    fail acc ~kind:"model_mismatch" ~what:"[C13,C14] a generated caller program does not satisfy prog_wf (hypothesis of T13_no_abort / T13b / T13_exactly_once)" (JS program);
  let case = lazy (JO [ "max_threads", JI maxt; "program", JS program; "policy", JS policy; "seed", JI seed; "spurious", JB spurious;
                        "forced_schedule", JL (List.map (fun x -> JI x) forced) ]) in
  let (status, lines) = run_harness ~maxt ~policy ~seed ~spurious ~program ~forced in
  if status = "infeasible" then (bump acc "infeasible_forced_schedule"; [])
  else begin
    record acc ~key:(json_to_string (Lazy.force case)) ~nontrivial:(String.contains program 'd') ~klass case;
    bumpn acc "steps" (List.length (List.filter (function Step _ -> true | _ -> false) lines));
    (match spec_check status ~maxt ~program lines with
     | Some msg -> fail acc ~kind:"spec_violation" ~what:("[C13] " ^ msg) (Lazy.force case)
     | None -> ());
    (match replay ~maxt ~program lines with
     | Some msg -> fail acc ~kind:"model_mismatch" ~what:("[C13,C14] model replay: " ^ (if String.length msg > 60 then String.sub msg 0 60 else msg)) (JO [ "case", Lazy.force case; "detail", JS msg ])
     | None -> ());
    lines
  end

let programs = [
  (1, "hO,d0,f0,p"); (1, "hO,d0,d0,d0,f0,p"); (2, "hO,d0,d0,d0,f0,p"); (3, "hO,d0,d0,f0,p");
  (1, "hU,d0,d0,f0,p"); (2, "hU,d0,d0,d0,f0,p"); (2, "hO,f0,p"); (1, "hU,f0,p");
  (2, "hO,hU,d0,d1,d0,d1,f0,f1,p"); (1, "hO,hU,d0,d1,f1,d0,f0,p"); (2, "hU,hU,d0,d1,d1,d0,f0,f1,p");
  (3, "hO,d0,d0,d0,d0,d0,d0,f0,p"); (2, "hO,d0,f0,hU,d1,d1,f1,p"); (4, "hO,hO,hU,d0,d1,d2,d2,d1,d0,f2,f1,f0,p");
]

let run ~tier ~seed ~only acc =
  let idx = ref 0 in
  let want () = cur_index := !idx; (match only with None -> true | Some i -> i = !idx) in
  List.iter (fun (maxt, program) ->
    (* default schedule *)
    let base = if want () then check acc ~klass:"default_schedule" ~maxt ~policy:"default" ~seed:0 ~spurious:false ~program ~forced:[] else [] in
    incr idx;
    (* every single preemption *)
    let steps = List.filter_map (function Step (k, t, _, _, en) -> Some (k, t, en) | _ -> None) base in
    (* a run that was cut off (reported above) is not used as a base for preemptions *)
    let steps = if List.length steps > 20000 then [] else steps in
    let chosen = List.map (fun (_, t, _) -> t) steps in
    let small = List.length steps <= 140 in
    List.iter (fun (k, t, en) ->
      List.iter (fun alt ->
        if alt <> t then begin
          if want () && (tier = "thorough" || small || k mod 3 = 0) then begin
            let prefix = List.filteri (fun i _ -> i < k) chosen in
            let l1 = check acc ~klass:"one_preemption" ~maxt ~policy:"default" ~seed:0 ~spurious:false ~program ~forced:(prefix @ [ alt ]) in
            (* two preemptions on the small programs (thorough) *)
            if tier = "thorough" && List.length steps <= 70 then begin
              let steps1 = List.filter_map (function Step (k1, t1, _, _, en1) -> Some (k1, t1, en1) | _ -> None) l1 in
              let chosen1 = List.map (fun (_, t1, _) -> t1) steps1 in
              List.iter (fun (k1, t1, en1) ->
                if k1 > k && k1 mod 2 = 0 then List.iter (fun alt1 ->
                    if alt1 <> t1 then ignore (check acc ~klass:"two_preemptions" ~maxt ~policy:"default" ~seed:0 ~spurious:false ~program
                                                 ~forced:(List.filteri (fun i _ -> i < k1) chosen1 @ [ alt1 ]))) en1) steps1
            end
          end;
          incr idx
        end) en) steps;
    (* random schedules *)
    let nr = if tier = "thorough" then 400 else 25 in
    for r = 1 to nr do
      if want () then ignore (check acc ~klass:(if r mod 2 = 0 then "random_spurious" else "random") ~maxt ~policy:"random" ~seed:(seed * 1000 + r) ~spurious:(r mod 2 = 0) ~program ~forced:[]);
      incr idx
    done) programs
