"""Per-property configuration of ./check (engines, trusted base, assumptions)."""

# model .vo files the extraction depends on (relative to coq/)
MODEL_VO = ['gen/Consts.vo', 'gen/CrcTables.vo', 'model/Bytes.vo', 'model/Codec.vo']
# OCaml modules of the driver, in link order
OCAML_MODULES = ['common', 'c16', 'main']
C_VARIANTS_SETUP = ('all',)
EXTRA_BUILDS = []
COQ_TIMEOUT = 3000

ALLOWED_AXIOMS = []   # no axiom is accepted: every property theorem must be closed


def axiom_allowed(line):
    return any(line.startswith(a) for a in ALLOWED_AXIOMS)


COMMON_TRUSTED = [
    'Coq 8.16.1 kernel (coqc; vm_compute used for finite sweeps and witnesses; no native_compute)',
    'no axioms: Print Assumptions of every property theorem must be "Closed under the global context"',
    'translator tools/gen_consts.py (regex-level scrape of constants, thresholds, field orders, tables from /repo)',
    'extraction: ExtrOcamlBasic only (Extract Inductive bool, option, unit, list, prod, sumbool; no Extract Constant), OCaml 4.13.1',
    'correspondence driver: ocaml/common.ml (int <-> N glue), ocaml/stubs.c, the per-property ocaml/*.ml generators and comparators',
    'modelled rather than verified: the C code itself; it is tied to the Gallina model by the translator and by differential execution on the explored inputs only',
    'gcc, libc, the kernel; asserts enabled (no NDEBUG); little-endian x86-64 host',
]

PROPS = {
    'C16': {
        'engines': [{'name': 'c16', 'timeout_quick': 300, 'timeout_thorough': 3600}],
        'trusted_base': [],
        'assumptions': [
            'memcpy/htoleN on a little-endian host behave as the byte-list model says (alignment safety is a C-level matter observed only by running the real code at offsets 0..7)',
            'uint32_t/uint64_t arguments: values are < 2^32 / < 2^64 (type-level fact of the C API)',
        ],
        'explanation': 'T16a-e: round trip, standard LEB128 form, byte counts, little-endian fixed codecs, malformed inputs - proved for all values; model tied to varint.c/fixed.c by scraped thresholds/branch layouts and by differential execution.',
    },
}
