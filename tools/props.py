"""Per-property configuration of ./check (engines, trusted base, assumptions)."""
import ext_engines

# model .vo files the extraction depends on (relative to coq/)
MODEL_VO = ['gen/Consts.vo', 'gen/CrcTables.vo', 'model/Bytes.vo', 'model/Codec.vo', 'model/Order.vo', 'model/Crc.vo',
            'model/Block.vo', 'model/Writer.vo', 'model/WriteLoop.vo', 'spec/Leb128.vo', 'spec/Parse.vo', 'model/Reader.vo', 'model/IterMem.vo', 'spec/TableCheck.vo', 'spec/Encode.vo', 'model/Verify.vo', 'model/Tools.vo', 'model/ToolsMerge.vo', 'model/Compress.vo', 'model/Heap.vo', 'model/Merger.vo', 'model/Sorter.vo', 'model/Fileset.vo', 'model/FilesetPart.vo', 'model/Ledger.vo', 'model/Pool.vo', 'proofs/PoolLife.vo', 'proofs/PoolFairEx.vo', 'model/OpenModel.vo', 'model/Resources.vo']
# OCaml modules of the driver, in link order
OCAML_MODULES = ['common', 'gen', 'enc', 'c16', 'wr', 'c20', 'rd', 'c19', 'c17', 'c12', 'c15', 'mg', 'so', 'fs', 'lk', 'pl', 'main']
C_VARIANTS_SETUP = ('all', 'tsan')
EXTRA_BUILDS = []
COQ_TIMEOUT = 3000

ALLOWED_AXIOMS = []   # no axiom is accepted: every property theorem must be closed


def axiom_allowed(line):
    return any(line.startswith(a) for a in ALLOWED_AXIOMS)


COMMON_TRUSTED = [
    'Coq 8.16.1 kernel (coqc; vm_compute used for finite sweeps and witnesses; no native_compute)',
    'no axioms: Print Assumptions of every property theorem must be "Closed under the global context"',
    'translator tools/gen_consts.py (regex-level scrape of constants, thresholds, field orders, tables from /repo)',
    'translator tools/gen_ties.py (statement lists of the modelled C functions, comments and white space removed, regenerated into coq/gen/Ties.v on every run; compared by reflexivity with the committed coq/props/Ties_Cxx.v)',
    'extraction: ExtrOcamlBasic only (Extract Inductive bool, option, unit, list, prod, sumbool; no Extract Constant), OCaml 4.13.1',
    'correspondence driver: ocaml/common.ml (int <-> N glue), ocaml/stubs.c, the per-property ocaml/*.ml generators and comparators',
    'modelled rather than verified: the C code itself; it is tied to the Gallina model by the translator and by differential execution on the explored inputs only',
    'gcc, libc, the kernel; asserts enabled (no NDEBUG); little-endian x86-64 host',
]

WORLD_COMPRESS = 'compression oracle: the model writer calls the implementation\'s own mtbl_compress/mtbl_compress_level for block contents (Section variables compress_default/compress_level; hypothesis: they succeed and return a non-empty buffer)'

PROPS = {
    'C08': {
        'engines': [{'name': 'wr', 'timeout_quick': 600, 'timeout_thorough': 7200}],
        'trusted_base': [WORLD_COMPRESS],
        'assumptions': [
            'keys are byte strings (each element < 256); block_restart_interval >= 1 - met by every value the setter lets through since the repair F13 (T08g_restart_interval_at_least_one over the scraped clamp; before it, interval 0 aborted the writer)',
            'compressing a block never fails (the writer asserts it)',
            'mtbl_writer_init on an existing path: model/OpenModel.v states the POSIX meaning of the open(2) flags (O_CREAT|O_EXCL fails on any existing name without following links; O_TRUNC empties); the flag list itself is scraped from the source on every run; that the kernel implements this meaning is validated by the driver on regular/empty/symlink/dangling-symlink/directory targets',
            'the clause "the finished file holds exactly the accepted entries" is checked on the implementation with the extracted independent decoder; its theorem is T09/T01 (reader side)',
        ],
        'explanation': 'T08a (gate + refused add leaves the state unchanged), T08b (every add sequence: results = "strictly greater than last accepted", no abort), T08e (bytes_compare is the stated total order), T08f (for every file system and every path naming anything, the open(2) call of mtbl_writer_init - flags scraped from the source - fails and leaves the file system unchanged; on a fresh path it creates exactly that file; the open call of the reader changes nothing). Correspondence: real writer vs model writer byte for byte, results vs the rule, refused adds vs the file written from the accepted adds alone.',
    },
    'C10': {
        'engines': [{'name': 'wr', 'timeout_quick': 600, 'timeout_thorough': 7200}],
        'trusted_base': [WORLD_COMPRESS],
        'assumptions': [
            'block_restart_interval >= 1; compression never fails',
            'T10b: every statistic is < 2^64 (true of any file that fits a 64-bit offset)',
            '"number of data blocks / bytes" in T10a are those of the frames the writer model emits; that an independent decoder finds the same frames is checked on every implementation file by the extracted decoder (spec/Parse.v)',
        ],
        'explanation': 'T10a: trailer fields = counts of ACCEPTED entries, number/size of data frames, index offset/size, configured block size and algorithm, for every configuration, initial offset and add sequence; T10b/c: trailer round trip and agreement of the scraped field orders. Correspondence: accessors and mtbl_info output vs the independent decoder\'s view of the real file.',
    },
    'C09': {
        'engines': [{'name': 'wr', 'timeout_quick': 600, 'timeout_thorough': 7200}],
        'trusted_base': [WORLD_COMPRESS, 'decompression oracle for the independent decoder: the implementation\'s mtbl_decompress'],
        'assumptions': ['block_restart_interval >= 1; compression never fails',
                        'T09_full / T09d: sizes that fit the integer widths of the format (keys, values < 4 GiB; block_size + |key| + |value| + 32 < 2^32 per add; framed index block < 4 GiB; statistics < 2^64); compressor output is a string of bytes and round-trips through the decompressor',
                        'without the size hypotheses the statement is false on the model (T09_unrestricted_refuted, 4 GiB restart-width switch: observation O1)'],
        'explanation': 'Layout theorem (frames contiguous from the initial offset, varint length + CRC32C of stored bytes, index frame, 512-byte trailer ending in the magic) and separator theorem; every file written by the real writer is decoded and validated clause by clause by the extracted independent decoder and compared byte for byte with the model writer.',
    },
    'C01': {
        'engines': [{'name': 'rd', 'timeout_quick': 900, 'timeout_thorough': 7200}, {'name': 'wr', 'timeout_quick': 600, 'timeout_thorough': 7200},
                    {'name': 'c20', 'timeout_quick': 600, 'timeout_thorough': 3600}],
        'trusted_base': [WORLD_COMPRESS, 'decompression oracle: mtbl_decompress'],
        'assumptions': ['T01_* hold under explicit size hypotheses: keys/values < 4 GiB, block_size + |key| + |value| + 32 < 2^32 for every entry, index block < 4 GiB, file < 2^64 bytes, statistics < 2^64; compress/decompress are Section variables assumed to round-trip',
                        'madvise has no semantic content in the model; pooled writers are exercised by engine wr (byte-identical files)'],
        'explanation': 'Round trip = writer emits a well-formed file (C09) o reader reads every well-formed file (C11). Implementation, model and the entries added are compared on writer-made tables over the configuration space; mtbl_dump -x and its -k/-v/-K/-V filters are compared with the specification.',
    },
    'C02': {
        'engines': [{'name': 'rd', 'timeout_quick': 900, 'timeout_thorough': 7200}],
        'trusted_base': ['decompression oracle: mtbl_decompress'],
        'assumptions': ['T02_lookups is stated over table_ok; writer outputs satisfy it by T01_written_table_ok, checked files by T11 (table_check_sound)'],
        'explanation': 'get / get_prefix / get_range on implementation, model and filter specification for every stored key, neighbours, proper prefixes, one-byte extensions, every index separator and its neighbours, empty key/prefix, reversed ranges.',
    },
    'C03': {
        'engines': [{'name': 'rd', 'timeout_quick': 900, 'timeout_thorough': 7200}],
        'trusted_base': ['decompression oracle: mtbl_decompress'],
        'assumptions': ['T03c is stated over table_ok (see C01/C11 for which files satisfy it); the reader model is tied to reader.c/block.c step by step by engine rd against the sorted-list cursor',
                        'buffer stability and non-interference between iterators: theorems T03m_* on the memory-level model model/IterMem.v (heap of buffers, ownership, the allocation / rewrite / free pattern of reader.c and block.c, arbitrary realloc policy); the C code is tied to that pattern by the source ties of its iterator functions and by engine rd (returned pointers re-read before the next call; several iterators interleaved)'],
        'explanation': 'T03a: block_iter_seek (gallop from the current restart index + binary search + continue-from-current shortcut + unbounded linear scan) reaches the first entry >= target from EVERY reachable iterator state of EVERY well-formed block; T03b: seek_to_first/next. Histories on the four iterator kinds, exhaustive (position,target) pairs on small tables.',
    },
    'C11': {
        'engines': [{'name': 'rd', 'timeout_quick': 900, 'timeout_thorough': 7200}],
        'trusted_base': ['decompression oracle: mtbl_decompress', 'independent encoder ocaml/enc.ml (generator; its v2 output is judged by the extracted decoder before use)'],
        'assumptions': ['T11_legal_tables is relative to the executable check table_check (extracted and run on every generated file: it must accept and decode exactly the encoded entries)',
                        'blocks above 4 GiB (64-bit restart arrays): one sparse-file case, implementation against specification; not covered by the theorem'],
        'explanation': 'Files from an independent encoder with random legal layouts (format v1 and v2, arbitrary block boundaries, restart positions, non-maximal sharing, shortened separators, compression) are read by implementation and model: iteration, lookups, seek histories.',
    },
    'C04': {
        'engines': [{'name': 'mg', 'timeout_quick': 600, 'timeout_thorough': 7200}],
        'trusted_base': ['test merge (concatenation with separator) and dupsort callbacks and the user-defined source in ocaml/stubs.c'],
        'assumptions': ['T04_merge_sources / T04_next_call: merge function set (never failing for the whole-iteration theorem), no dupsort; T04n_*: no merge function and/or a dupsort function (dupsort_ok = total preorder per key where the dupsort ORDER is claimed; none needed for the permutation / key-order claims)',
                        'sources obey the iterator contract of C03 (ideal cursors in the model; real readers and a user-defined source in the engine)',
                        'fold ORDER among the values of one key is unspecified by the property: the specification check compares multisets of atoms; the model predicts the exact order and is compared exactly'],
        'explanation': 'Implementation vs model/Merger.v (array heap with the C tie-breaks, pending/cur_key bookkeeping) vs the specification (sorted union, each value folded exactly once, dupsort order, failure on failing merge; after a failed merge the history goes on and whatever is delivered must still be a fold of values the sources hold for that key - theorems T04f_*) over source families of readers and of buffer-invalidating user sources.',
    },
    'C05': {
        'engines': [{'name': 'mg', 'timeout_quick': 600, 'timeout_thorough': 7200}],
        'trusted_base': ['test merge / dupsort callbacks and the user-defined source in ocaml/stubs.c'],
        'assumptions': ['sources strictly sorted and obeying the iterator contract of C03 (ideal cursors in the model); merge function total; no dupsort in the seek theorems',
                        'bounded iterator kinds (get / get_prefix / get_range): seek targets at or after the range start, as the property states (T05_restriction_needed shows why)',
                        'a source whose get returns NULL is skipped by the implementation; in the model a bounded cursor with an empty range - the engine compares both'],
        'explanation': 'next/seek histories and get/get_prefix/get_range on merger sources: implementation = model = cursor over the merged content (keys exactly, values as multisets of atoms).',
    },
    'C06': {
        'engines': [{'name': 'so', 'timeout_quick': 600, 'timeout_thorough': 7200}],
        'trusted_base': ['mkstemp shim: sorter.c compiled with -Dmkstemp=vp_mkstemp (records every template)', 'MTBL_VERIF hook: MIN_SORTER_MEMORY lowered to 1 so that multi-chunk sorts are reachable'],
        'assumptions': ['T06a_sorter_output assumes a total, associative merge function (for a non-associative one the code itself makes the result depend on the chunking)',
                        'qsort: any function returning a key-sorted permutation (not assumed stable); the engine therefore compares merged values as multisets of atoms',
                        'pools: the model is the sequential view; that pooled runs give the same entries is checked by running pools 0..8 (schedules: C13)'],
        'explanation': 'Implementation vs model/Sorter.v vs specification (each distinct key once, ascending, value = fold of exactly the values added) over add sequences x max_memory (1 .. all in memory, spill-rule boundaries) x pools 0..8 x {iterator, mtbl_sorter_write}; mkstemp templates must lie in the configured directory; number of spills must equal the model\'s; add/write after iteration must be refused.',
    },
    'C07': {
        'engines': [{'name': 'fs', 'timeout_quick': 600, 'timeout_thorough': 7200}],
        'trusted_base': ['clock shim: fileset.c compiled with -Dclock_gettime=vp_clock_gettime (driver-controlled monotonic clock, +1 ns per reading)', 'setfile mtimes forced strictly increasing with utimes; filename/reader filter callbacks in ocaml/stubs.c'],
        'assumptions': ['every reading of the monotonic clock is strictly later than the previous one (the code uses the reading as a generation stamp; observation O4)',
                        'setfile change detection = (inode, mtime in seconds): each rewrite gets a later mtime',
                        'the theorems take the lines of a setfile to be distinct names (NoDup): my_fileset_reload realises that since the repair F12 (b41bbf6) by keeping one entry per path - before it, a path named twice led to a use after free; engine fs writes such setfiles and compares with the model on the distinct lines; two DIFFERENT spellings of one path (a.mtbl and ./a.mtbl) are two names',
                        '"more than the interval has elapsed" is evaluated on whole seconds, as the code and the man page do (observation O5)',
                        'all clauses (T07a safety, T07b view, T07d/e pinning and deferred reload, T07c timing) are proved on the model for every history; engine fs ties the model to the C code'],
        'explanation': 'T07g: the text of the setfile as the read loop of my_fileset_reload takes it (model/Setfile.v) - one name per line, last newline optional; every setfile text of a history is read through the extracted model, and my_fileset_reload is run directly on arbitrary texts (empty lines, NUL-cut lines, missing files, repeats, no final newline) against it. '
            'State-machine model of fileset.c + my_fileset.c over an abstract world (setfile, files, clock). Engine fs runs random and directed histories (setfile rewrites with relative/absolute/missing/not-a-table lines, file creation/deletion, clock advances around the interval, reload, reload_now, iterators opened early and drained late, dups with filters and intervals 0/n/NEVER, destruction in any order) on the real code and the model and compares the set of tables every iterator sees.',
    },
    'C12': {
        'engines': [{'name': 'c12', 'timeout_quick': 600, 'timeout_thorough': 7200}, {'name': 'c17', 'timeout_quick': 600, 'timeout_thorough': 7200}],
        'trusted_base': ['mtbl_verify built from /repo/src/mtbl_verify.c against the freshly built library; decompression oracle'],
        'assumptions': ['damage is confined to one block\'s stored bytes or its 4-byte checksum field (the property\'s quantifier); a damaged length prefix or trailer is outside it',
                        'T12c_bursts covers every error confined to 32 consecutive bit positions, T12d every odd number of flips, T12e_double_flips any two flips in a frame of at most 2^31 - 1 bits (blocks below 256 MiB; for longer frames two flips exactly 2^31 - 1 positions apart cancel - a property of the polynomial, outside what any implementation could detect); engine c12 samples all of these on the real mtbl_verify and a verifying reader'],
        'explanation': 'T12b: the verifying reader stops on any field/CRC mismatch whichever operation loads the block; mtbl_verify says OK iff every field matches; T12d: every odd-weight error is detected (parity of the CRC-32C register). Real mtbl_verify and a verify_checksums reader (iteration, get, seek, get_prefix, get_range) on damaged data / last-data / index blocks.',
    },
    'C13': {
        'engines': [{'name': 'pl', 'timeout_quick': 900, 'timeout_thorough': 7200}, {'name': 'wr', 'timeout_quick': 600, 'timeout_thorough': 7200}, {'name': 'so', 'timeout_quick': 600, 'timeout_thorough': 7200}],
        'trusted_base': ['schedule-controlling pthread shim: threadpool.c compiled with -include harness/vp_pthread.h, run by harness/poolsched.c (one thread at a time; mutex/condition state emulated; POSIX semantics of lock/unlock/cond_wait/signal/create/join assumed as emulated there)'],
        'assumptions': ['single caller thread in the LTS (several callers sharing a pool are exercised with real threads under TSan, C14)',
                        'hypotheses of T13_no_abort / T13b / T13_exactly_once / T13_ordered_*: the caller program respects the API contract (prog_wf, executable) and a signal wakes only a thread that is blocked on a condition variable (sched_wf); engine pl checks both on every trace',
                        'hypotheses of T13d_fair (no hang): additionally the program ends with the destruction of the pool, 1 <= pool size < 2^64, and every signal wakes a waiter of that condition variable if one exists (sched_fair = the guarantee of pthread_cond_signal; spurious wake-ups and the choice of the waiter stay arbitrary); engine pl evaluates the extracted checker wake_fairb (proved sound) at every signal step of every trace',
                        'no-hang is proved on the LTS as: a state where no thread can run is a state where every thread has exited (T13d_fair); that the scheduler eventually runs an enabled thread (fairness of the OS scheduler) is outside any model; without sched_fair the statement is machine-checked false (T13d_refuted); engine pl reports every deadlock of the real code on the explored schedules',
                        'the writer/sorter clauses: T13w_* state the pooled writer as a deferred writer (caller part / handler part of writer.c, the job = snapshot of options, last key and raw block) - the split follows _mtbl_writer_flush, _compress_block_wrapper and _write_data_block_wrapper, which are source-tied; T13s_* compose T13_exactly_once with T06e / T06f. That the C handler really runs only on the handler thread and touches only the handler-side fields is the C14 matter (ThreadSanitizer); engines wr and so also compare pooled and unpooled output with real threads over pools 0..8',
                        'T13s_pooled_sorter_same_entries needs a commutative merge function (machine-checked necessary: T13s_needs_commutativity; without it the output still is a correct fold per key, T13s_pooled_sorter)'],
        'explanation': 'LTS of threadpool.c at pthread-operation granularity (model/Pool.v). Engine pl: the real threadpool.c under controlled schedules - default, every single preemption of it, seeded random with random signal targets and spurious wake-ups, pairs of preemptions (thorough) - replayed on the LTS with the enabled-thread set compared after every step; deadlock, assertion failure, lost/duplicated/reordered results and too many workers are violations.',
    },
    'C14': {
        'engines': [{'name': 'tsan', 'kind': 'external', 'run': ext_engines.tsan_engine}, {'name': 'pl', 'timeout_quick': 900, 'timeout_thorough': 7200}],
        'c_variants': ('all', 'tsan'),
        'trusted_base': ['ThreadSanitizer (gcc -fsanitize=thread) on the library built from /repo with the hook enabled; harness/tsan_stress.c',
                         'schedule-controlling pthread shim (engine pl): ties the LTS, on which the race-freedom theorems are stated, to threadpool.c step by step; the per-label access lists (seg_access) are hand-written from threadpool.c'],
        'assumptions': ['T14_race_free: caller program respects the API contract (prog_wf), a signal wakes only a blocked thread (sched_wf), a thread starts only after its pthread_create has been performed (sched_causal) - T14_race_free_hb / _all_sched need no such hypothesis and are the statements that apply to the schedules engine pl explores (a created thread may run before the create step of its creator: the new thread running before pthread_create returns); engine pl checks prog_wf and sched_wf on every trace; program shorter than 2^63 commands',
                        'a theorem about the Gallina LTS says nothing about which memory accesses the C code performs outside threadpool.c: for readers shared between threads the write sets of reader.c / block.c and the static storage of the library are regenerated from the source by tools/gen_ties.py (STRUCT_WRITES, STATIC_STORAGE) and T14r_* prove the written-only-at-init rule over them - a syntactic scan (assignments, increments, address-taken fields through named struct pointers; writes through aliases are invisible to it); for the writer / sorter fields owned by the handler thread the access list FIELD_ACCESSES (function, field, kind, statement index, brace depth, join statements) is regenerated likewise and T14w proves the ownership rule over it; ThreadSanitizer searches underneath both',
                        'absence of a TSan report on the explored executions is not a proof of race freedom; a report is a concrete violation'],
        'explanation': 'Race freedom of the thread-pool protocol proved on the LTS of threadpool.c for all schedules (in-flight access sets per program point, lockset theorem, ownership invariants for the unlocked accesses). Data-race freedom of the C code is searched with ThreadSanitizer on real concurrent programs: pooled writers and sorters sharing one pool from several caller threads, many threads on one reader, first-use of the CRC dispatch from several workers, mixed.',
    },
    'C15': {
        'engines': [{'name': 'c15', 'timeout_quick': 600, 'timeout_thorough': 7200}],
        'trusted_base': ['zlib, lz4, zstd, snappy: oracles (record `libs` of model/Compress.v). Hypotheses of the theorems, each a documented contract: libs_sound (what a compressor returns fits the capacity it was given and is inverted by the matching decompressor offered exactly the original size; zstd / snappy report that size; inflate(Z_FINISH) ends the stream once the space offered holds the output, Z_BUF_ERROR before) and libs_complete (offered its bound function\'s value as capacity and a legal level a compressor does not fail; deflateInit accepts levels -1..9)',
                         'bound formulas of LZ4_compressBound, ZSTD_compressBound, snappy_max_compressed_length are written out in the model and compared with the library functions by engine c15 (0..600, powers of two +-, random sizes)',
                         'compression.c is compiled with the library entry points renamed (-DLZ4_compress_default=vp_LZ4_compress_default ...) to recording shims in ocaml/stubs.c'],
        'assumptions': ['T15a_roundtrip: input < 2^64 bytes; for zstd, ZSTD_compressBound(input length) <= INT_MAX (observation O6: above that an incompressible input compresses to more than INT_MAX bytes, which mtbl_decompress refuses; about 2 GiB, outside the stated range)',
                        'T15a_compress_succeeds: input <= LZ4_MAX_INPUT_SIZE (0x7E000000) so that every library accepts it',
                        'what no theorem here can show: that zlib/lz4/zstd/snappy meet their contracts - exercised in forked children on every length 0..64 x four contents x 5 algorithms and all level classes, random structured buffers, 8 threads at once'],
        'explanation': 'T15a_roundtrip (success of mtbl_compress[_level] implies mtbl_decompress returns the input: INT_MAX gates, LZ4 length prefix, zstd content-size path, zlib grow loop), T15a_compress_succeeds / T15a_never_aborts (capacity >= bound and legal level for EVERY requested level, so no failure and no assert), T15a_capacities, T15a_levels, T15b_names (tables regenerated from compression.c). Engine c15: forked round trips; at the library boundary the recorded (level, capacity, source length) must satisfy the hypotheses of the theorems (capacity >= the real bound function, deflateInit level in -1..9, zstd level in [min,max], decompressor offered the original size); sizes above INT_MAX must be refused without touching the buffer.',
    },
    'C17': {
        'engines': [{'name': 'c17', 'timeout_quick': 600, 'timeout_thorough': 7200}],
        'trusted_base': ['crc32{b,w,l,q} instruction semantics (Intel SDM): byte-wise accumulation of a little-endian operand', 'the little-endian branch of crc32c-slicing.c is the one compiled (config.h: WORDS_BIGENDIAN undefined)'],
        'assumptions': ['bytes < 256', 'the one-time dispatch (constructor / my_crc32c_first) is outside the model: both implementations and the dispatcher are called directly by the driver'],
        'explanation': 'T17a/T17b: the slicing-by-8 model (8x256 tables and lookup pattern scraped from the source, checked by finite computation and GF(2)-linearity of the shift register) and the SSE4.2 model (tail switch scraped from the source; shown to read every tail byte once, in order) equal the bit-serial CRC-32C for every byte string and alignment; T17c pins the standard by the check value and the RFC 3720 vectors.',
    },
    'C18': {
        'engines': [{'name': 'lk', 'timeout_quick': 600, 'timeout_thorough': 7200}],
        'trusted_base': ['/proc/self/fd, /proc/self/maps, /proc/self/task, mallinfo2 (glibc tcache disabled through GLIBC_TUNABLES so that in-use bytes are exact)', 'MTBL_VERIF hook (small sorter chunks), mkstemp/clock shims'],
        'assumptions': ['well-formed usage: no call on a destroyed object; borrowers are destroyed before what they borrow (iterators before their source, mergers before the sources added, writers and sorters before their pool)',
                        'heap: a scenario that destroys all its objects is repeated four times in one process; a leak is reported when the in-use bytes grow in both of the last two repetitions (constant one-time allocations of libc/OCaml are thereby ignored)',
                        'T18_all_destroyed_clean is about the operational model (model/Res*.v), written by following the C control flow; its tie to the code: source ties of the functions it follows + per-step comparison of its obs with /proc in the writer, reader, merger, non-pooled sorter and fileset (dup, reloads, either destruction order) scenarios; the static footprints (T18a, model/Ledger.v) are compared in every scenario',
                        'a pooled sorter whose merge callback failed makes mtbl_sorter_iter assert (observation O3); such histories are not generated'],
        'explanation': 'Operational model: per API call the ordered acquisitions and releases of the C function incl. failure paths; T18_all_destroyed_clean for all histories and outcomes; the pre-repair sorter code refuted in the same model. Ledger model: footprint of every object kind in descriptors / file mappings / temp files / handler threads; T18a: every created object destroyed => ledger empty. Engine lk: scenarios over writers, readers, iterators abandoned undrained, mergers, sorters (destroyed before/after iteration, with jobs in flight, after failing merge, after a refused sorter_write), filesets with dups and reloads, shared pools; observed vs ledger after every step, all-zero at the end, no heap growth over repetitions.',
    },
    'C19': {
        'engines': [{'name': 'c19', 'timeout_quick': 600, 'timeout_thorough': 7200}],
        'trusted_base': ['mmap shim: reader.c compiled with -Dmmap=vp_mmap -Dmunmap=vp_munmap (ocaml/stubs.c): a private copy of the file flush against PROT_NONE guard pages'],
        'assumptions': ['file content is a byte string (every element < 256)',
                        'the read extents recorded by the model are those of mtbl_reader_init_fd, metadata_read, the varint/fixed decoders, the optional index CRC and block_init; that the C code makes no other read is what the guard-page runs validate'],
        'explanation': 'T19a: for every byte string and either verify_checksums setting, every read extent of the model of mtbl_reader_init_fd lies inside the file and the outcome is NULL / reader / assertion. Real code: outcome class under guard pages on trailer/index-header mutations, truncations, random bytes.',
    },
    'C20': {
        'engines': [{'name': 'c20', 'timeout_quick': 600, 'timeout_thorough': 7200}],
        'trusted_base': [WORLD_COMPRESS, 'write(2) shim: writer.c compiled with -Dwrite=vp_write (ocaml/stubs.c) - assumes write(2) appends exactly the first r bytes it reports'],
        'assumptions': [
            'write(2) semantics: a return value r > 0 means the first r bytes were appended; -1/EINTR means nothing was written; errno is meaningful only after a return of -1 (a successful write may leave any value there)',
            'a compressor never returns an empty buffer (so _write_all is never called with size 0)',
        ],
        'explanation': 'T20a: _write_all under any outcome sequence appends exactly the buffer or aborts, and aborts exactly when an error/zero return is met before completion; T20b: the finished file of any writer session is independent of the fragmentation; T20c: the errno-level loop (return value + errno as state, the two tests of the C code), entered with any errno and with successful writes leaving anything in errno, equals the outcome-level loop. Correspondence: real writer under exhaustive single faults at every write call and random multi-fault schedules, also with EINTR / EIO left in errno on entry and by every successful write (the shim sets it), against both models.',
    },
    'C16': {
        'engines': [{'name': 'c16', 'timeout_quick': 300, 'timeout_thorough': 3600}],
        'trusted_base': [],
        'assumptions': [
            'memcpy/htoleN on a little-endian host behave as the byte-list model says (alignment safety is a C-level matter observed only by running the real code at offsets 0..7)',
            'uint32_t/uint64_t arguments: values are < 2^32 / < 2^64 (type-level fact of the C API)',
        ],
        'explanation': 'T16a-e: round trip, standard LEB128 form, byte counts, little-endian fixed codecs, malformed inputs - proved for all values; model tied to varint.c/fixed.c by scraped thresholds/branch layouts and by differential execution.',
    },
}
