"""Per-property configuration of ./check (engines, trusted base, assumptions)."""

# model .vo files the extraction depends on (relative to coq/)
MODEL_VO = ['gen/Consts.vo', 'gen/CrcTables.vo', 'model/Bytes.vo', 'model/Codec.vo', 'model/Order.vo', 'model/Crc.vo',
            'model/Block.vo', 'model/Writer.vo', 'model/WriteLoop.vo', 'spec/Leb128.vo', 'spec/Parse.vo']
# OCaml modules of the driver, in link order
OCAML_MODULES = ['common', 'gen', 'c16', 'wr', 'c20', 'main']
C_VARIANTS_SETUP = ('all',)
EXTRA_BUILDS = []
COQ_TIMEOUT = 3000

ALLOWED_AXIOMS = []   # no axiom is accepted: every property theorem must be closed


def axiom_allowed(line):
    return any(line.startswith(a) for a in ALLOWED_AXIOMS)


COMMON_TRUSTED = [
    'Coq 8.16.1 kernel (coqc; vm_compute used for finite sweeps and witnesses; no native_compute)',
    'no axioms: Print Assumptions of every property theorem must be "Closed under the global context"',
    'translator tools/gen_consts.py (regex-level scrape of constants, thresholds, field orders, tables from /repo)',
    'extraction: ExtrOcamlBasic only (Extract Inductive bool, option, unit, list, prod, sumbool; no Extract Constant), OCaml 4.13.1',
    'correspondence driver: ocaml/common.ml (int <-> N glue), ocaml/stubs.c, the per-property ocaml/*.ml generators and comparators',
    'modelled rather than verified: the C code itself; it is tied to the Gallina model by the translator and by differential execution on the explored inputs only',
    'gcc, libc, the kernel; asserts enabled (no NDEBUG); little-endian x86-64 host',
]

WORLD_COMPRESS = 'compression oracle: the model writer calls the implementation\'s own mtbl_compress/mtbl_compress_level for block contents (Section variables compress_default/compress_level; hypothesis: they succeed and return a non-empty buffer)'

PROPS = {
    'C08': {
        'engines': [{'name': 'wr', 'timeout_quick': 600, 'timeout_thorough': 7200}],
        'trusted_base': [WORLD_COMPRESS],
        'assumptions': [
            'keys are byte strings (each element < 256); block_restart_interval >= 1',
            'compressing a block never fails (the writer asserts it)',
            'mtbl_writer_init on an existing path: O_CREAT|O_EXCL is an OS contract - validated by the driver on regular/empty/symlink/directory targets, not modelled',
            'the clause "the finished file holds exactly the accepted entries" is checked on the implementation with the extracted independent decoder; its theorem is T09/T01 (reader side)',
        ],
        'explanation': 'T08a (gate + refused add leaves the state unchanged), T08b (every add sequence: results = "strictly greater than last accepted", no abort), T08e (bytes_compare is the stated total order). Correspondence: real writer vs model writer byte for byte, results vs the rule, refused adds vs the file written from the accepted adds alone.',
    },
    'C10': {
        'engines': [{'name': 'wr', 'timeout_quick': 600, 'timeout_thorough': 7200}],
        'trusted_base': [WORLD_COMPRESS],
        'assumptions': [
            'block_restart_interval >= 1; compression never fails',
            'T10b: every statistic is < 2^64 (true of any file that fits a 64-bit offset)',
            '"number of data blocks / bytes" in T10a are those of the frames the writer model emits; that an independent decoder finds the same frames is checked on every implementation file by the extracted decoder (spec/Parse.v)',
        ],
        'explanation': 'T10a: trailer fields = counts of ACCEPTED entries, number/size of data frames, index offset/size, configured block size and algorithm, for every configuration, initial offset and add sequence; T10b/c: trailer round trip and agreement of the scraped field orders. Correspondence: accessors and mtbl_info output vs the independent decoder\'s view of the real file.',
    },
    'C20': {
        'engines': [{'name': 'c20', 'timeout_quick': 600, 'timeout_thorough': 7200}],
        'trusted_base': [WORLD_COMPRESS, 'write(2) shim: writer.c compiled with -Dwrite=vp_write (ocaml/stubs.c) - assumes write(2) appends exactly the first r bytes it reports'],
        'assumptions': [
            'write(2) semantics: a return value r > 0 means the first r bytes were appended; -1/EINTR means nothing was written',
            'a compressor never returns an empty buffer (so _write_all is never called with size 0)',
        ],
        'explanation': 'T20a: _write_all under any outcome sequence appends exactly the buffer or aborts, and aborts exactly when an error/zero return is met before completion; T20b: the finished file of any writer session is independent of the fragmentation. Correspondence: real writer under exhaustive single faults at every write call and random multi-fault schedules.',
    },
    'C16': {
        'engines': [{'name': 'c16', 'timeout_quick': 300, 'timeout_thorough': 3600}],
        'trusted_base': [],
        'assumptions': [
            'memcpy/htoleN on a little-endian host behave as the byte-list model says (alignment safety is a C-level matter observed only by running the real code at offsets 0..7)',
            'uint32_t/uint64_t arguments: values are < 2^32 / < 2^64 (type-level fact of the C API)',
        ],
        'explanation': 'T16a-e: round trip, standard LEB128 form, byte counts, little-endian fixed codecs, malformed inputs - proved for all values; model tied to varint.c/fixed.c by scraped thresholds/branch layouts and by differential execution.',
    },
}
