#!/bin/bash
# coverage.sh [tier]: which lines of /repo/mtbl/*.c and libmy/*.c do the correspondence engines execute?
# Builds a gcov-instrumented copy of the driver library and vdrv under /var/tmp/vp-cov, runs every vdrv engine,
# prints per-file line coverage and writes the unexecuted lines to /var/tmp/vp-cov/uncovered.txt.
# A diagnostic for generator quality (where could a change hide from the correspondence?), not a check.
set -e
tier=${1:-quick}
V=/verif; REPO=${VERIF_REPO:-/repo}; CB=/var/tmp/vp-cov
rm -rf $CB; mkdir -p $CB/ocaml
CFG=$REPO/config.h; [ -f $CFG ] || CFG=$V/harness/cfg/config.h
make -s -f $V/harness/Makefile -j16 REPO=$REPO B=$CB V=$V \
  CFLAGS="-O0 --coverage -g -include $CFG -I$REPO -I$REPO/mtbl -I$V/harness/cfg -DMTBL_VERIF -MMD -MP -fPIC" $CB/libmtbl-drv.a
[ -f $V/build/ocaml/mtbl_model.ml ] || (cd $V && ./check --setup >/dev/null)
cp $V/build/ocaml/mtbl_model.ml $V/build/ocaml/mtbl_model.mli $V/ocaml/*.ml $V/ocaml/stubs.c $CB/ocaml/
mods=$(python3 -c "import sys; sys.path.insert(0,'$V/tools'); import props; print(' '.join(m+'.ml' for m in props.OCAML_MODULES))")
(cd $CB/ocaml && ocamlfind ocamlopt -w -a -inline 100 -package unix -linkpkg \
  -ccopt "-I$REPO/mtbl -I$REPO -I$V/harness -I$V/harness/cfg -include $CFG -DMTBL_VERIF -DVP_COVERAGE" \
  stubs.c mtbl_model.mli mtbl_model.ml $mods $CB/libmtbl-drv.a -cclib "-lz -llz4 -lzstd -lsnappy -lpthread -lgcov" -o vdrv 2>/dev/null)
mkdir -p $CB/bin; cp $V/build/bin/* $CB/bin/ 2>/dev/null || true
for e in c16 wr c20 rd c19 c17 c12 c15 mg so fs lk; do
  (cd $CB && VERIF_DIR=$V VERIF_BUILD=$CB VERIF_REPO=$REPO GLIBC_TUNABLES=glibc.malloc.tcache_count=0 timeout 3000 ./ocaml/vdrv $e --seed ${VERIF_SEED:-1} --tier $tier --out $CB/res_$e.json >/dev/null 2>&1) || echo "engine $e: status $?"
done
cd $CB/obj
: > $CB/uncovered.txt
for o in mtbl_*.gcno my_*.gcno shim_*.gcno; do
  gcov -b -o . $o >/dev/null 2>&1 || true
done
for g in *.c.gcov; do
  src=$(head -1 $g | sed 's/.*Source://')
  case "$src" in *$REPO/mtbl/*|*$REPO/libmy/*) ;; *) continue;; esac
  tot=$(grep -c -E '^ *([0-9]+\*?|#####):' $g || true); miss=$(grep -c -E '^ *#####:' $g || true)
  echo "$(basename $src): $((tot-miss))/$tot lines"
  grep -E '^ *#####:' $g | sed "s|^|$(basename $src):|" >> $CB/uncovered.txt
done | sort
echo "unexecuted lines: $(wc -l < $CB/uncovered.txt)  (list: $CB/uncovered.txt)"
