#!/bin/bash
# run_thorough_snapshot.sh <ids...>: under `vp run`, the thorough tier of the given properties from this snapshot (diagnostic)
cd "$(dirname "$0")/.."
[ -n "$VP_RUN_REPO" ] && export VERIF_REPO=$VP_RUN_REPO    # under vp run --with-repo: the snapshot of /repo, not /repo itself
./check --setup > setup.log 2>&1
for p in "$@"; do
  /usr/bin/time -f "$p %es" ./check $p --tier thorough 2>&1 | grep -E "VIOLATION|thorough:|^C[0-9]+ [0-9.]+s" 
done
