#!/bin/bash
# run_seeded.sh [repo]: apply every seeded change in turn to the repository (default: $VERIF_REPO or /repo),
# run the check of the property it breaks, record whether a VIOLATION was raised, undo the change.
# Writes seeded/RESULTS.txt (one line per change) next to this script's parent directory.
V=$(cd "$(dirname "$0")/.." && pwd)
R=${1:-${VERIF_REPO:-/repo}}
export VERIF_REPO=$R
cd $V
./check --setup > /dev/null 2>&1
out=$V/seeded/RESULTS.txt; : > $out
for d in $(ls -d seeded/C*-* | sort); do
  id=$(basename $d); prop=${id%-*}
  git -C $R apply $V/$d/patch.diff 2>/dev/null || { echo "$id APPLY-FAILED" >> $out; continue; }
  res=$(./check $prop --tier quick 2>&1 | grep -E "^VIOLATION" | head -1)
  git -C $R checkout -- . 
  if [ -n "$res" ]; then
     kind=$(echo "$res" | grep -q no-failing-input-found && echo "detected(no-failing-input-found)" || echo "detected(concrete)")
  else kind="MISSED"; fi
  echo "$id $prop $kind" >> $out
  echo "$id $prop $kind"
done
# the unchanged tree must be quiet again
for p in C01 C08 C13 C17; do ./check $p --tier quick 2>&1 | grep -E "^VIOLATION" ; done
echo "finished" >> $out
