#!/bin/bash
# try_seeded.sh <ID e.g. C07-3> [property]: apply the seeded change to /repo, run the property's check, undo
id=$1; p=${2:-${id%-*}}
git -C /repo apply /verif/seeded/$id/patch.diff || { echo "$id: patch does not apply"; exit 2; }
out=$(cd /verif && ./check $p 2>&1 | grep -E "VIOLATION|quick:" | tr '\n' ' ')
git -C /repo checkout -- .
echo "$id [$p]: $out"
