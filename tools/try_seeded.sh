#!/bin/bash
# try_seeded.sh <ID e.g. C07-3> [property]: apply the seeded change to /repo, run the property's check, undo.
# The evidence file of the property is put back afterwards (evidence must describe the unchanged tree).
id=$1; p=${2:-${id%-*}}
cp /verif/evidence/$p.json /tmp/.evidence_$p.$$ 2>/dev/null
git -C /repo apply /verif/seeded/$id/patch.diff || { echo "$id: patch does not apply"; exit 2; }
out=$(cd /verif && ./check $p 2>&1 | grep -E "VIOLATION|quick:" | tr '\n' ' ')
git -C /repo checkout -- .
[ -f /tmp/.evidence_$p.$$ ] && mv /tmp/.evidence_$p.$$ /verif/evidence/$p.json
echo "$id [$p]: $out"
