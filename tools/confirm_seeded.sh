#!/bin/bash
# confirm_seeded.sh <PROP> <n> : independently confirm a sub-agent's mutation in a scratch worktree
#  - applies, builds, runs the unmodified test suite (must be 15/15)
#  - runs the demonstration with the change (must fail) and without (must pass)
#  - on success stores it as /verif/seeded/<PROP>-<n>/ with meta.json
set -u
P=$1; N=$2; SRC=/tmp/wt-$P/mutation/$N; WT=/tmp/confirm-$P-$N; OUT=/verif/seeded/$P-$N
[ -f $SRC/patch.diff ] || { echo "$P-$N: no patch"; exit 2; }
git -C /repo worktree add -q --detach $WT HEAD || exit 2
cleanup() { git -C /repo worktree remove --force $WT 2>/dev/null; }
trap cleanup EXIT
cd $WT
git apply $SRC/patch.diff || { echo "$P-$N: patch does not apply"; exit 1; }
(autoreconf -fi && ./configure && make -j8) >/dev/null 2>&1 || { echo "$P-$N: does not build"; exit 1; }
SUITE=$(make check 2>&1 | grep -E '^# (PASS|FAIL):' | tr -d '\n')
bash $SRC/run.sh $WT >/tmp/confirm-$P-$N.with.log 2>&1; RC_WITH=$?
git checkout -q -- . 
make -j8 >/dev/null 2>&1
bash $SRC/run.sh $WT >/tmp/confirm-$P-$N.without.log 2>&1; RC_WITHOUT=$?
echo "$P-$N: suite[$SUITE] demo_with=$RC_WITH demo_without=$RC_WITHOUT"
if echo "$SUITE" | grep -q 'PASS:  15' && [ $RC_WITH -ne 0 ] && [ $RC_WITHOUT -eq 0 ]; then
  mkdir -p $OUT && cp $SRC/patch.diff $SRC/demo.c $SRC/run.sh $SRC/README.md $OUT/ 2>/dev/null
  python3 - <<PY
import json
json.dump({"property":"$P","source":"independent sub-agent given only the property text and a scratch worktree",
 "needs_to_manifest":"see README.md","confirmed":{"suite":"$SUITE".strip(),"demo_exit_with_change":$RC_WITH,"demo_exit_without_change":$RC_WITHOUT,
 "how":"tools/confirm_seeded.sh $P $N (scratch worktree, autoreconf+configure+make check, run.sh with and without the patch)"},
 "detected_by":None},open("$OUT/meta.json","w"),indent=1)
PY
  echo "$P-$N: CONFIRMED -> $OUT"
else
  echo "$P-$N: NOT confirmed"
fi
rm -f /tmp/confirm-$P-$N.*.log
