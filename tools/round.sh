#!/bin/bash
# round.sh <PROP> <n> [<n>...]: confirm each sub-agent change in a scratch worktree, store it, run the property's check against it
P=$1; shift
for n in "$@"; do
  /verif/tools/confirm_seeded.sh $P $n 2>&1 | grep -E "CONFIRMED|NOT confirmed|does not|no patch" 
  if [ -d /verif/seeded/$P-$n ]; then /verif/tools/try_seeded.sh $P-$n 2>&1 | grep -v WARNING; fi
done
