#!/usr/bin/env python3
"""validate MANIFEST.json and evidence/*.json against the schemas (run with python3-vt which has jsonschema)"""
import json, sys, glob, jsonschema
import ast, os
ast.parse(open(os.path.join(os.path.dirname(os.path.abspath(__file__)), "props.py")).read())   # tools/props.py must at least parse (the check imports it)
ok = True
m = json.load(open('/verif/MANIFEST.json'))
try:
    jsonschema.validate(m, json.load(open('/root/.vp/MANIFEST.schema.json'))); print('MANIFEST ok')
except Exception as e:
    ok = False; print('MANIFEST INVALID', str(e)[:500])
es = json.load(open('/root/.vp/EVIDENCE.schema.json'))
for p in sorted(glob.glob('/verif/evidence/*.json')):
    try:
        jsonschema.validate(json.load(open(p)), es); print(p, 'ok')
    except Exception as e:
        ok = False; print(p, 'INVALID', str(e)[:500])
ids = {json.loads(l)['id'] for l in open('/verif/properties.jsonl')}
claimed = {c['property_id'] for c in m['checks']}
na = {c['property_id'] for c in m.get('not_applicable', [])}
print('claimed', sorted(claimed)); print('not_applicable', sorted(na)); print('unaccounted', sorted(ids - claimed - na))
sys.exit(0 if ok else 1)
