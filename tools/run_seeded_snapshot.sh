#!/bin/bash
# run_seeded_snapshot.sh [<id> ...]: for use under `vp run --with-repo -- tools/run_seeded_snapshot.sh`: applies every seeded change to the
# snapshot of /repo ($VP_RUN_REPO), runs the property's check from this snapshot of /verif against it, undoes it.
# Writes seeded_results.txt in the snapshot directory (a diagnostic; evidence comes only from /verif run on /repo).
R=${VP_RUN_REPO:?needs --with-repo}
export VERIF_REPO=$R
cd "$(dirname "$0")/.."
./check --setup > setup.log 2>&1
: > seeded_results.txt
# an argument may name the property whose check is to be run: C04-14:C05
if [ $# -gt 0 ]; then LIST=$(for a in "$@"; do echo seeded/$a; done); else LIST=$(ls -d seeded/C*-*); fi
for d in $LIST; do
  id=$(basename $d); p=${id%-*}
  case $id in *:*) p=${id#*:}; id=${id%:*}; d=seeded/$id;; esac
  git -C $R apply $PWD/$d/patch.diff 2>/dev/null || { echo "$id: patch does not apply" >> seeded_results.txt; continue; }
  out=$(./check $p 2>&1 | grep -E "VIOLATION|quick:" | tr '\n' ' ')
  git -C $R checkout -- .
  echo "$id [$p]: $out" >> seeded_results.txt
done
if [ $# -gt 0 ]; then cat seeded_results.txt; exit 0; fi
echo "unchanged tree:" >> seeded_results.txt
for p in C01 C02 C03 C04 C05 C06 C07 C08 C09 C10 C11 C12 C13 C14 C15 C16 C17 C18 C19 C20; do
  echo "$p: $(./check $p 2>&1 | grep -E 'VIOLATION|quick:' | tr '\n' ' ')" >> seeded_results.txt
done
grep -c VIOLATION seeded_results.txt
