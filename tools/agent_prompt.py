#!/usr/bin/env python3
"""Print the prompt given to a mutation sub-agent for one property (only the property text + its worktree)."""
import json, sys
pid = sys.argv[1]
rnd = int(sys.argv[2]) if len(sys.argv) > 2 else 1
round2 = rnd >= 2
for l in open('/verif/properties.jsonl'):
    p = json.loads(l)
    if p['id'] == pid: break
else: sys.exit('no such property')
wt = f'/tmp/wt-{pid}'
a, b = (2 * rnd - 1, 2 * rnd)
extra3 = " Prefer the less obvious corners of the property: rarely used API entry points and options, the command-line tools under src/, error and boundary paths, unusual configurations named in the quantifier, interactions between two functions - rather than the first comparison or constant one would think of."
extra4 = " This time put the change into SUPPORT code rather than into the main algorithm files: the generic containers and buffers (libmy/ubuf.h, libmy/vector.h, libmy/heap.c), the thin dispatch layers (mtbl/iter.c, mtbl/source.c, mtbl/metadata.c, option setters and option structs in any file), or the command-line tools under src/ (mtbl_dump.c, mtbl_info.c, mtbl_merge.c, mtbl_verify.c) - wherever a change there makes THIS property fail for some specific size, count, option or sequence while ordinary use stays correct."
extra5 = " This time make the change manifest ONLY when TWO features or options are combined, each of which alone still behaves correctly - for example: a thread pool AND bytes already present in the file before the table; a dup'ed fileset handle AND a filename or reader filter; a seek AND an iterator bound (get_prefix / get_range); compression AND verify_checksums; the empty key AND a merge function; a non-default option value AND one particular API entry point or tool flag; two iterators on one object used alternately. Look for the place where the two code paths meet (a shared field, a shared helper, an option read in two places)."
extra6 = " This time make each change look like a PERFORMANCE OPTIMISATION or a CLEAN-UP a maintainer might commit: a cache or memo of the last result, a fast path for the common case, an early exit, hoisting a computation out of a loop, reusing a buffer instead of reallocating, skipping work that looks redundant, replacing a general routine by a specialised one, merging two similar branches - correct for ordinary use and wrong in one specific corner (a boundary size, an empty or repeated key, a second call, a particular order of calls, a rarely used option)."
extra7 = " This time put the change into an ERROR-HANDLING, CLEAN-UP or LIFETIME path: what happens when something returns NULL or failure, when an object is destroyed early or in an unusual order, when an iterator or handle is reused after it reported failure, when a second object of the same kind exists at the same time, when an operation is repeated (two seeks in a row, two reloads in a row, destroy right after init) - paths that ordinary use seldom takes. The property must fail there while the straight-line path stays correct."
extra8 = " This time make the change an ARITHMETIC or REPRESENTATION slip: the width or signedness of an integer (size_t / uint32_t / int / ssize_t mixed), a length computed one too large or too small, an offset that forgets a header or a trailer, a comparison of lengths before a memcmp, a shift or mask off by one bit, a multiplication or addition that wraps near a limit, a count that is updated before instead of after (or per call instead of per element), a unit mix-up (bytes vs entries vs blocks), a boundary written as < where <= is meant - showing only at a specific size, count, offset or value (a power of two, a length of 0 / 1 / 127 / 128 / 16383 / 16384 / 65535 / 65536, the first or last element, an exact fit) while ordinary values stay correct."
extra = extra8 if rnd >= 8 else extra7 if rnd >= 7 else extra6 if rnd >= 6 else extra5 if rnd >= 5 else extra4 if rnd >= 4 else extra3 if rnd >= 3 else (f" {2 * rnd - 2} earlier changes already exist under {wt}/mutation/1 .. {wt}/mutation/{2 * rnd - 2} (read their README.md files): yours must use DIFFERENT mechanisms and different functions from those, and should aim at parts of the property statement (and of its quantifier: unusual configurations, options, tools, API entry points, boundary sizes) that the earlier ones do not touch." if round2 else "")
print(f"""You are helping test a verification framework by producing realistic *breaking changes* (mutations) to a C library. Work ONLY inside the git worktree {wt} (a checkout of the farsightsec/mtbl library: immutable sorted string tables, LevelDB-style). Do NOT read or write /repo or /verif or any other worktree under /tmp.

Build recipe for the worktree (about 25 s): cd {wt} && autoreconf -fi >/dev/null 2>&1 && ./configure >/dev/null 2>&1 && make -j16 >/dev/null 2>&1 && make check 2>&1 | grep -E '^# (TOTAL|PASS|FAIL)'   (must report 15 passing tests). Object files can also be compiled directly: gcc -O1 -g -include {wt}/config.h -I{wt} -I{wt}/mtbl -c {wt}/mtbl/*.c {wt}/libmy/{{crc32c,crc32c-slicing,crc32c-sse42,heap,my_fileset}}.c ; link with -lz -llz4 -lzstd -lsnappy -lpthread.

The property that must be BROKEN:

  Title: {p['title']}
  Statement: {p['statement']}
  Quantified over: {p['quantifier']['text']}
  Code it is anchored in: {', '.join(p['anchors']['files'])}

Task:{extra} Produce TWO independent changes (different mechanisms, ideally in different functions) to the library source (files under mtbl/ or libmy/ or src/; not the tests under t/) such that, for each change taken alone:
  1. the library still compiles and the existing test suite (make check) still passes 15/15;
  2. the property above is violated for some input / configuration / history / schedule;
  3. the violation needs something specific to manifest (an unusual input, a boundary size, a particular multi-step sequence of operations, a particular interleaving or fault, or two cooperating sites that each look fine alone) - NOT something ordinary use would expose at once. It should look like a plausible bug a maintainer could introduce (off-by-one, wrong comparison, missing update of a field, wrong constant at a boundary, reordered statements), not sabotage. Do not simply revert one of the recent 'fix:' commits in git log.
For each change write a small demonstration program (C, using the public API in mtbl/mtbl.h or internal headers) that exits non-zero / prints FAIL WITH the change and exits 0 / prints PASS WITHOUT it. Verify both directions yourself.

Deliverables (write them under {wt}/mutation/{a}/ and {wt}/mutation/{b}/): patch.diff (output of `git diff` for the library source only, applicable with `git apply` at the worktree root, made against the unmodified HEAD), demo.c (+ run.sh that builds the library objects from the tree it is run in and runs the demo; run.sh takes the tree root as $1), README.md (what breaks, what it needs to manifest, what you ran). Leave the worktree's tracked files UNMODIFIED at the end (git checkout -- . ; the mutation/ directory is untracked and stays). Keep your final answer to a few lines per change: file/function changed, one-sentence mechanism, what is needed to manifest.""")
