#!/bin/bash
# run_seeds_snapshot.sh <seed> [<seed> ...]: under `vp run --with-repo`, every quick check on the unchanged tree with other seeds
# (diagnostic for false alarms; evidence comes only from /verif run on /repo)
cd "$(dirname "$0")/.."
[ -n "$VP_RUN_REPO" ] && export VERIF_REPO=$VP_RUN_REPO
./check --setup > setup.log 2>&1
for s in "$@"; do
  for p in C01 C02 C03 C04 C05 C06 C07 C08 C09 C10 C11 C12 C13 C14 C15 C16 C17 C18 C19 C20; do
    echo "seed $s $p: $(VERIF_SEED=$s ./check $p 2>&1 | grep -E 'VIOLATION|quick:' | tr '\n' ' ')"
  done
done
