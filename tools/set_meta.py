#!/usr/bin/env python3
"""set_meta.py <id> <round> <check-property> [note]: record in seeded/<id>/meta.json which check caught the change"""
import json, sys
i, rnd, prop = sys.argv[1], int(sys.argv[2]), sys.argv[3]
note = sys.argv[4] if len(sys.argv) > 4 else None
p = '/verif/seeded/%s/meta.json' % i
m = json.load(open(p))
m['needs_to_manifest'] = {3: "less obvious corner (round 3); see README.md", 4: "support code / tools (round 4); see README.md", 5: "two features combined (round 5); see README.md", 6: "optimisation / clean-up wrong in a corner (round 6); see README.md", 7: "error-handling / clean-up / lifetime path (round 7); see README.md", 8: "arithmetic / representation slip (round 8); see README.md"}.get(rnd, m.get('needs_to_manifest'))
m['detected_by'] = {'check': './check %s --tier quick' % prop, 'result': 'VIOLATION with a concrete failing input (replay file)',
                    'confirmed_by': 'tools/try_seeded.sh / tools/run_seeded_snapshot.sh (apply the patch, run the check, undo)'}
if note: m['detected_by']['note'] = note
m['round'] = rnd
json.dump(m, open(p, 'w'), indent=1)
