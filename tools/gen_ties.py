#!/usr/bin/env python3
"""Translator, second part: statement-level fingerprints of the C functions the models follow.

usage: gen_ties.py <repo> <outdir>            regenerate <outdir>/Ties.v from the sources (every run)
       gen_ties.py <repo> --expected <dir>    (re)write the expected-value lemmas <dir>/Ties_Cxx.v from the CURRENT
                                              sources - done by hand when a model has been re-validated against a
                                              changed function, never by ./check

For every (function, filter) pair of TIES below, Ties.v holds
    Definition TIE_<name> : list (nat * string) := [(depth, "normalised statement"); ...].
i.e. the statements of that function that match the filter, in order, with their brace depth, white space and
comments removed.  props/Ties_Cxx.v (committed) states, per property, the value each of these had when the Gallina
model of that function was written and validated; Properties_Cxx.v imports it, so a change of any selected statement
(an operator, a constant, an argument, the order or nesting of statements) breaks a proof obligation of exactly the
properties whose model follows that function.  A function that disappears yields [(0, "<missing>")]."""
import os, re, sys

def rd(repo, rel):
    with open(os.path.join(repo, rel), encoding='utf-8', errors='replace') as f:
        return f.read()

def strip_comments(s):
    s = re.sub(r'/\*.*?\*/', ' ', s, flags=re.S)
    s = re.sub(r'//[^\n]*', ' ', s)
    return s

def func_body(src, name):
    m = re.search(r'(?:^|\n)[^\n;{}()]*\b' + re.escape(name) + r'\s*\([^;{]*\)\s*\{', src)
    if not m:
        return None
    i = m.end(); depth = 1
    while depth and i < len(src):
        c = src[i]
        if c == '{': depth += 1
        elif c == '}': depth -= 1
        i += 1
    return src[m.end():i - 1]

def statements(body):
    """[(depth, text)]: split at ';' '{' '}' outside parentheses and literals; preprocessor lines are statements"""
    out = []; cur = []; depth = 0; par = 0; i = 0; n = len(body)
    def flush():
        t = re.sub(r'\s+', '', ''.join(cur))
        if t:
            out.append((depth, t))
        cur.clear()
    while i < n:
        c = body[i]
        if c in '"\'':
            j = i + 1
            while j < n and body[j] != c:
                j += 2 if body[j] == '\\' else 1
            cur.append(body[i:j + 1]); i = j + 1; continue
        if c == '#' and (not ''.join(cur).strip()):
            j = body.find('\n', i); j = n if j < 0 else j
            cur.append(body[i:j]); flush(); i = j; continue
        if c == '(': par += 1
        elif c == ')': par -= 1
        if par == 0 and c == ';':
            flush()
        elif par == 0 and c == '{':
            flush(); depth += 1
        elif par == 0 and c == '}':
            flush(); depth -= 1
        else:
            cur.append(c)
        i += 1
    flush()
    return out

ALL = r'.'
COND = r'^(if|elseif|else|while|for|switch|case|default|return|break|continue|do)\b|^(if|elseif|while|for|switch|return)\('

# name, file, function, filter, properties
TIES = [
    ('merger_seek', 'mtbl/merger.c', 'merger_iter_seek', ALL, ['C05']),
    ('merger_next', 'mtbl/merger.c', 'merger_iter_next', ALL, ['C04', 'C05']),
    ('merger_compare', 'mtbl/merger.c', '_mtbl_merger_compare', ALL, ['C04']),
    ('merger_entry_fill', 'mtbl/merger.c', 'entry_fill', ALL, ['C04', 'C05']),
    ('merger_iter_init', 'mtbl/merger.c', 'merger_iter_init', ALL, ['C04', 'C05', 'C18']),
    ('heap_siftup', 'libmy/heap.c', 'siftup', ALL, ['C04', 'C05']),
    ('heap_siftdown', 'libmy/heap.c', 'siftdown', ALL, ['C04', 'C05']),
    ('heap_heapify', 'libmy/heap.c', 'heap_heapify', ALL, ['C05']),
    ('heap_pop', 'libmy/heap.c', 'heap_pop', ALL, ['C04', 'C05']),
    ('heap_replace', 'libmy/heap.c', 'heap_replace', ALL, ['C04', 'C05']),
    ('sorter_add', 'mtbl/sorter.c', 'mtbl_sorter_add', ALL, ['C06', 'C18']),
    ('sorter_iter', 'mtbl/sorter.c', 'mtbl_sorter_iter', ALL, ['C06', 'C14', 'C18']),
    ('sorter_write', 'mtbl/sorter.c', 'mtbl_sorter_write', ALL, ['C06', 'C18']),
    ('sorter_write_chunk', 'mtbl/sorter.c', '_mtbl_sorter_write_chunk', ALL, ['C06', 'C18']),
    ('sorter_flush', 'mtbl/sorter.c', '_mtbl_sorter_flush', ALL, ['C06', 'C13', 'C18']),
    ('sorter_compare', 'mtbl/sorter.c', '_mtbl_sorter_compare', ALL, ['C06']),
    ('sorter_destroy', 'mtbl/sorter.c', 'mtbl_sorter_destroy', ALL, ['C18', 'C13']),
    ('fileset_reload', 'mtbl/fileset.c', 'mtbl_fileset_reload', ALL, ['C07', 'C18']),
    ('fileset_reload_now', 'mtbl/fileset.c', 'mtbl_fileset_reload_now', ALL, ['C07', 'C18']),
    ('fileset_iter_init', 'mtbl/fileset.c', 'fileset_iter_init', ALL, ['C07', 'C18']),
    ('fileset_iter_free', 'mtbl/fileset.c', 'fileset_iter_free', ALL, ['C07', 'C18']),
    ('fileset_reinit_merger', 'mtbl/fileset.c', 'fs_reinit_merger', ALL, ['C07', 'C18']),
    ('my_fileset_reload', 'libmy/my_fileset.c', 'my_fileset_reload', ALL, ['C07', 'C18']),
    ('my_fileset_updated', 'libmy/my_fileset.c', 'setfile_updated', ALL, ['C07']),
    ('reader_init_fd', 'mtbl/reader.c', 'mtbl_reader_init_fd', ALL, ['C19', 'C18']),
    ('reader_init_madvise', 'mtbl/reader.c', 'reader_init_madvise', ALL, ['C12']),
    ('reader_get_block', 'mtbl/reader.c', 'get_block', ALL, ['C11', 'C12']),
    ('reader_needs_index_seek', 'mtbl/reader.c', 'needs_index_seek', ALL, ['C03']),
    ('reader_iter_seek', 'mtbl/reader.c', 'reader_iter_seek', ALL, ['C03']),
    ('reader_iter_next', 'mtbl/reader.c', 'reader_iter_next', ALL, ['C02', 'C03']),
    ('reader_iter_init', 'mtbl/reader.c', 'reader_iter_init', ALL, ['C02']),
    ('block_init', 'mtbl/block.c', 'block_init', ALL, ['C11', 'C19']),
    ('block_get_restart_point', 'mtbl/block.c', 'get_restart_point', ALL, ['C11']),
    ('block_parse_next_key', 'mtbl/block.c', 'parse_next_key', ALL, ['C03', 'C11']),
    ('block_decode_entry', 'mtbl/block.c', 'decode_entry', ALL, ['C11']),
    ('block_iter_seek', 'mtbl/block.c', 'block_iter_seek', ALL, ['C03']),
    ('writer_add', 'mtbl/writer.c', 'mtbl_writer_add', ALL, ['C08', 'C09']),
    ('writer_finish', 'mtbl/writer.c', '_mtbl_writer_finish', ALL, ['C09', 'C10', 'C18']),
    ('writer_write_data_block', 'mtbl/writer.c', '_mtbl_writer_write_data_block', ALL, ['C09', 'C10']),
    ('writer_write_all', 'mtbl/writer.c', '_write_all', ALL, ['C20']),
    ('writer_init', 'mtbl/writer.c', 'mtbl_writer_init', ALL, ['C08', 'C18']),
    ('writer_init_fd', 'mtbl/writer.c', 'mtbl_writer_init_fd', ALL, ['C10', 'C18']),
    ('writer_set_block_size', 'mtbl/writer.c', 'mtbl_writer_options_set_block_size', ALL, ['C10']),
    ('bb_add', 'mtbl/block_builder.c', 'block_builder_add', ALL, ['C09']),
    ('bb_finish', 'mtbl/block_builder.c', 'block_builder_finish', ALL, ['C09']),
    ('bb_estimate', 'mtbl/block_builder.c', 'block_builder_current_size_estimate', ALL, ['C09']),
    ('bytes_separator', 'mtbl/bytes.h', 'bytes_shortest_separator', ALL, ['C09', 'C02']),
    ('bytes_compare', 'mtbl/mtbl-private.h', 'bytes_compare', ALL, ['C08', 'C02']),
    ('tp_worker', 'mtbl/threadpool.c', 'thread_worker', ALL, ['C13', 'C14']),
    ('tp_next', 'mtbl/threadpool.c', 'threadpool_next', ALL, ['C13', 'C14']),
    ('tp_dispatch', 'mtbl/threadpool.c', 'threadpool_dispatch', ALL, ['C13', 'C14']),
    ('tp_destroy', 'mtbl/threadpool.c', 'threadpool_destroy', ALL, ['C13', 'C14']),
    ('tp_resultq_next', 'mtbl/threadpool.c', 'resultq_next', ALL, ['C13', 'C14']),
    ('tp_resultq_finish', 'mtbl/threadpool.c', 'resultq_finish', ALL, ['C13', 'C14']),
    ('tp_resultq_destroy', 'mtbl/threadpool.c', 'resultq_destroy', ALL, ['C13', 'C14']),
    ('tp_result_worker', 'mtbl/threadpool.c', 'result_worker', ALL, ['C13', 'C14']),
    ('tp_rh_destroy', 'mtbl/threadpool.c', 'result_handler_destroy', ALL, ['C13', 'C14', 'C18']),
    ('comp_zlib', 'mtbl/compression.c', '_mtbl_compress_zlib', ALL, ['C15']),
    ('comp_lz4', 'mtbl/compression.c', '_mtbl_compress_lz4', ALL, ['C15']),
    ('comp_lz4hc', 'mtbl/compression.c', '_mtbl_compress_lz4hc', ALL, ['C15']),
    ('comp_zstd', 'mtbl/compression.c', '_mtbl_compress_zstd', ALL, ['C15']),
    ('comp_snappy', 'mtbl/compression.c', '_mtbl_compress_snappy', ALL, ['C15']),
    ('decomp_zlib', 'mtbl/compression.c', '_mtbl_decompress_zlib', ALL, ['C15']),
    ('decomp_lz4', 'mtbl/compression.c', '_mtbl_decompress_lz4', ALL, ['C15']),
    ('decomp_zstd', 'mtbl/compression.c', '_mtbl_decompress_zstd', ALL, ['C15']),
    ('decomp_snappy', 'mtbl/compression.c', '_mtbl_decompress_snappy', ALL, ['C15']),
    ('comp_dispatch', 'mtbl/compression.c', 'mtbl_compress', ALL, ['C15']),
    ('comp_level_dispatch', 'mtbl/compression.c', 'mtbl_compress_level', ALL, ['C15']),
    ('decomp_dispatch', 'mtbl/compression.c', 'mtbl_decompress', ALL, ['C15']),
    ('dump_dump', 'src/mtbl_dump.c', 'dump', ALL, ['C01']),
    ('verify_data_blocks', 'src/mtbl_verify.c', 'verify_data_blocks', ALL, ['C12']),
    ('verify_file', 'src/mtbl_verify.c', 'verify_file', ALL, ['C12']),
    ('writer_destroy', 'mtbl/writer.c', 'mtbl_writer_destroy', ALL, ['C18']),
    ('writer_flush', 'mtbl/writer.c', '_mtbl_writer_flush', ALL, ['C13', 'C09']),
    ('writer_compress_block', 'mtbl/writer.c', '_mtbl_writer_compress_block', ALL, ['C13', 'C09']),
    ('writer_compress_wrapper', 'mtbl/writer.c', '_compress_block_wrapper', ALL, ['C13']),
    ('writer_write_wrapper', 'mtbl/writer.c', '_write_data_block_wrapper', ALL, ['C13']),
    ('sorter_collect_cb', 'mtbl/sorter.c', '_collect_readers_cb', ALL, ['C13', 'C06']),
    ('sorter_temp_file_wrapper', 'mtbl/sorter.c', '_write_temp_file_wrapper', ALL, ['C13']),
    ('reader_init', 'mtbl/reader.c', 'mtbl_reader_init', ALL, ['C18']),
    ('reader_destroy', 'mtbl/reader.c', 'mtbl_reader_destroy', ALL, ['C18']),
    ('reader_iter_free', 'mtbl/reader.c', 'reader_iter_free', ALL, ['C18']),
    ('merger_destroy', 'mtbl/merger.c', 'mtbl_merger_destroy', ALL, ['C18']),
    ('merger_iter_free', 'mtbl/merger.c', 'merger_iter_free', ALL, ['C18']),
    ('sorter_init', 'mtbl/sorter.c', 'mtbl_sorter_init', ALL, ['C18']),
    ('sorter_iter_free', 'mtbl/sorter.c', 'sorter_iter_free', ALL, ['C18']),
    ('fileset_init', 'mtbl/fileset.c', 'mtbl_fileset_init', ALL, ['C18']),
    ('fileset_dup', 'mtbl/fileset.c', 'mtbl_fileset_dup', ALL, ['C18']),
    ('fileset_destroy', 'mtbl/fileset.c', 'mtbl_fileset_destroy', ALL, ['C18']),
    ('my_fileset_destroy', 'libmy/my_fileset.c', 'my_fileset_destroy', ALL, ['C18']),
    ('iter_destroy', 'mtbl/iter.c', 'mtbl_iter_destroy', ALL, ['C18']),
    ('source_write', 'mtbl/source.c', 'mtbl_source_write', ALL, ['C18']),
    ('tp_rh_init', 'mtbl/threadpool.c', 'result_handler_init', ALL, ['C18']),
    ('tp_pool_init', 'mtbl/threadpool.c', 'mtbl_threadpool_init', ALL, ['C18']),
    ('tp_pool_destroy', 'mtbl/threadpool.c', 'mtbl_threadpool_destroy', ALL, ['C18']),
    ('info_print', 'src/mtbl_info.c', 'print_info', ALL, ['C10']),
    ('dump_main', 'src/mtbl_dump.c', 'main', ALL, ['C01']),
    ('dump_print_hex', 'src/mtbl_dump.c', 'print_hex_string', ALL, ['C01']),
    ('dump_print_string', 'libmy/print_string.h', 'print_string', ALL, ['C01']),
    ('merge_tool_init_dso', 'src/mtbl_merge.c', 'init_dso', ALL, ['C04']),
    ('merge_tool_init_mtbl', 'src/mtbl_merge.c', 'init_mtbl', ALL, ['C04']),
    ('merge_tool_merge', 'src/mtbl_merge.c', 'merge', ALL, ['C04']),
    ('merge_tool_main', 'src/mtbl_merge.c', 'main', ALL, ['C04']),
    ('source_init', 'mtbl/source.c', 'mtbl_source_init', ALL, ['C02']),
    ('source_get', 'mtbl/source.c', 'mtbl_source_get', ALL, ['C02']),
    ('source_get_prefix', 'mtbl/source.c', 'mtbl_source_get_prefix', ALL, ['C02']),
    ('source_get_range', 'mtbl/source.c', 'mtbl_source_get_range', ALL, ['C02']),
    ('iter_seek', 'mtbl/iter.c', 'mtbl_iter_seek', ALL, ['C03', 'C05']),
    ('iter_next', 'mtbl/iter.c', 'mtbl_iter_next', ALL, ['C03', 'C05']),
    # every remaining function of the library sources (session 3, late): no statement of libmtbl changes without a tie breaking
    ('blk_num_restarts', 'mtbl/block.c', 'num_restarts', ALL, ['C03', 'C11']),
    ('blk_block_iter_init', 'mtbl/block.c', 'block_iter_init', ALL, ['C03', 'C11']),
    ('blk_next_entry_offset', 'mtbl/block.c', 'next_entry_offset', ALL, ['C03', 'C11']),
    ('blk_seek_to_restart_point', 'mtbl/block.c', 'seek_to_restart_point', ALL, ['C03', 'C11']),
    ('blk_block_iter_valid', 'mtbl/block.c', 'block_iter_valid', ALL, ['C03', 'C11']),
    ('blk_block_iter_seek_to_first', 'mtbl/block.c', 'block_iter_seek_to_first', ALL, ['C03', 'C11']),
    ('blk_compare_restart_point', 'mtbl/block.c', 'compare_restart_point', ALL, ['C03', 'C11']),
    ('blk_block_iter_next', 'mtbl/block.c', 'block_iter_next', ALL, ['C03', 'C11']),
    ('blk_block_iter_get', 'mtbl/block.c', 'block_iter_get', ALL, ['C03', 'C11']),
    ('blk_block_destroy', 'mtbl/block.c', 'block_destroy', ALL, ['C03', 'C18']),
    ('blk_block_iter_destroy', 'mtbl/block.c', 'block_iter_destroy', ALL, ['C03', 'C18']),
    ('bb_block_builder_init', 'mtbl/block_builder.c', 'block_builder_init', ALL, ['C09']),
    ('bb_block_builder_destroy', 'mtbl/block_builder.c', 'block_builder_destroy', ALL, ['C09']),
    ('bb_block_builder_reset', 'mtbl/block_builder.c', 'block_builder_reset', ALL, ['C09']),
    ('bb_block_builder_empty', 'mtbl/block_builder.c', 'block_builder_empty', ALL, ['C09']),
    ('comp_mtbl_compression_type_to_str', 'mtbl/compression.c', 'mtbl_compression_type_to_str', ALL, ['C15']),
    ('comp_mtbl_compression_type_from_str', 'mtbl/compression.c', 'mtbl_compression_type_from_str', ALL, ['C15']),
    ('fs_fileset_iter_seek', 'mtbl/fileset.c', 'fileset_iter_seek', ALL, ['C07']),
    ('fs_fileset_iter_next', 'mtbl/fileset.c', 'fileset_iter_next', ALL, ['C07']),
    ('fs_fileset_source_iter', 'mtbl/fileset.c', 'fileset_source_iter', ALL, ['C07']),
    ('fs_fileset_source_get', 'mtbl/fileset.c', 'fileset_source_get', ALL, ['C07']),
    ('fs_fileset_source_get_prefix', 'mtbl/fileset.c', 'fileset_source_get_prefix', ALL, ['C07']),
    ('fs_fileset_source_get_range', 'mtbl/fileset.c', 'fileset_source_get_range', ALL, ['C07']),
    ('fs_mtbl_fileset_options_init', 'mtbl/fileset.c', 'mtbl_fileset_options_init', ALL, ['C07']),
    ('fs_mtbl_fileset_options_set_merge_func', 'mtbl/fileset.c', 'mtbl_fileset_options_set_merge_func', ALL, ['C07']),
    ('fs_mtbl_fileset_options_set_dupsort_func', 'mtbl/fileset.c', 'mtbl_fileset_options_set_dupsort_func', ALL, ['C07']),
    ('fs_mtbl_fileset_options_set_filename_filter_func', 'mtbl/fileset.c', 'mtbl_fileset_options_set_filename_filter_func', ALL, ['C07']),
    ('fs_mtbl_fileset_options_set_reader_filter_func', 'mtbl/fileset.c', 'mtbl_fileset_options_set_reader_filter_func', ALL, ['C07']),
    ('fs_mtbl_fileset_options_set_reload_interval', 'mtbl/fileset.c', 'mtbl_fileset_options_set_reload_interval', ALL, ['C07']),
    ('fs_mtbl_fileset_source', 'mtbl/fileset.c', 'mtbl_fileset_source', ALL, ['C07']),
    ('fs_mtbl_fileset_partition', 'mtbl/fileset.c', 'mtbl_fileset_partition', ALL, ['C07']),
    ('fs_fs_load', 'mtbl/fileset.c', 'fs_load', ALL, ['C07', 'C18']),
    ('fs_fs_unload', 'mtbl/fileset.c', 'fs_unload', ALL, ['C07', 'C18']),
    ('fs_mtbl_fileset_set_options', 'mtbl/fileset.c', 'mtbl_fileset_set_options', ALL, ['C07', 'C18']),
    ('fs_mtbl_fileset_options_destroy', 'mtbl/fileset.c', 'mtbl_fileset_options_destroy', ALL, ['C07', 'C18']),
    ('fixed_mtbl_fixed_encode32', 'mtbl/fixed.c', 'mtbl_fixed_encode32', ALL, ['C16']),
    ('fixed_mtbl_fixed_encode64', 'mtbl/fixed.c', 'mtbl_fixed_encode64', ALL, ['C16']),
    ('fixed_mtbl_fixed_decode32', 'mtbl/fixed.c', 'mtbl_fixed_decode32', ALL, ['C16']),
    ('fixed_mtbl_fixed_decode64', 'mtbl/fixed.c', 'mtbl_fixed_decode64', ALL, ['C16']),
    ('iter_mtbl_iter_init', 'mtbl/iter.c', 'mtbl_iter_init', ALL, ['C03']),
    ('mg_mtbl_merger_options_init', 'mtbl/merger.c', 'mtbl_merger_options_init', ALL, ['C04', 'C05']),
    ('mg_mtbl_merger_options_destroy', 'mtbl/merger.c', 'mtbl_merger_options_destroy', ALL, ['C04', 'C05']),
    ('mg_mtbl_merger_options_set_merge_func', 'mtbl/merger.c', 'mtbl_merger_options_set_merge_func', ALL, ['C04', 'C05']),
    ('mg_mtbl_merger_options_set_dupsort_func', 'mtbl/merger.c', 'mtbl_merger_options_set_dupsort_func', ALL, ['C04', 'C05']),
    ('mg_mtbl_merger_init', 'mtbl/merger.c', 'mtbl_merger_init', ALL, ['C04', 'C05']),
    ('mg_mtbl_merger_source', 'mtbl/merger.c', 'mtbl_merger_source', ALL, ['C04', 'C05']),
    ('mg_mtbl_merger_add_source', 'mtbl/merger.c', 'mtbl_merger_add_source', ALL, ['C04', 'C05']),
    ('mg_merger_iter_add_entry', 'mtbl/merger.c', 'merger_iter_add_entry', ALL, ['C04', 'C05']),
    ('mg_merger_iter', 'mtbl/merger.c', 'merger_iter', ALL, ['C04', 'C05']),
    ('mg_merger_get', 'mtbl/merger.c', 'merger_get', ALL, ['C04', 'C05']),
    ('mg_merger_get_range', 'mtbl/merger.c', 'merger_get_range', ALL, ['C04', 'C05']),
    ('mg_merger_get_prefix', 'mtbl/merger.c', 'merger_get_prefix', ALL, ['C04', 'C05']),
    ('meta_metadata_write', 'mtbl/metadata.c', 'metadata_write', ALL, ['C10']),
    ('meta_metadata_read', 'mtbl/metadata.c', 'metadata_read', ALL, ['C10']),
    ('meta_mtbl_metadata_file_version', 'mtbl/metadata.c', 'mtbl_metadata_file_version', ALL, ['C10']),
    ('meta_mtbl_metadata_index_block_offset', 'mtbl/metadata.c', 'mtbl_metadata_index_block_offset', ALL, ['C10']),
    ('meta_mtbl_metadata_data_block_size', 'mtbl/metadata.c', 'mtbl_metadata_data_block_size', ALL, ['C10']),
    ('meta_mtbl_metadata_compression_algorithm', 'mtbl/metadata.c', 'mtbl_metadata_compression_algorithm', ALL, ['C10']),
    ('meta_mtbl_metadata_count_entries', 'mtbl/metadata.c', 'mtbl_metadata_count_entries', ALL, ['C10']),
    ('meta_mtbl_metadata_count_data_blocks', 'mtbl/metadata.c', 'mtbl_metadata_count_data_blocks', ALL, ['C10']),
    ('meta_mtbl_metadata_bytes_data_blocks', 'mtbl/metadata.c', 'mtbl_metadata_bytes_data_blocks', ALL, ['C10']),
    ('meta_mtbl_metadata_bytes_index_block', 'mtbl/metadata.c', 'mtbl_metadata_bytes_index_block', ALL, ['C10']),
    ('meta_mtbl_metadata_bytes_keys', 'mtbl/metadata.c', 'mtbl_metadata_bytes_keys', ALL, ['C10']),
    ('meta_mtbl_metadata_bytes_values', 'mtbl/metadata.c', 'mtbl_metadata_bytes_values', ALL, ['C10']),
    ('rdr_mtbl_reader_options_init', 'mtbl/reader.c', 'mtbl_reader_options_init', ALL, ['C02', 'C03']),
    ('rdr_mtbl_reader_options_destroy', 'mtbl/reader.c', 'mtbl_reader_options_destroy', ALL, ['C02', 'C03']),
    ('rdr_mtbl_reader_options_set_madvise_random', 'mtbl/reader.c', 'mtbl_reader_options_set_madvise_random', ALL, ['C02', 'C03']),
    ('rdr_mtbl_reader_options_set_verify_checksums', 'mtbl/reader.c', 'mtbl_reader_options_set_verify_checksums', ALL, ['C02', 'C03']),
    ('rdr_mtbl_reader_metadata', 'mtbl/reader.c', 'mtbl_reader_metadata', ALL, ['C02', 'C03']),
    ('rdr_mtbl_reader_source', 'mtbl/reader.c', 'mtbl_reader_source', ALL, ['C02', 'C03']),
    ('rdr_get_block_at_index', 'mtbl/reader.c', 'get_block_at_index', ALL, ['C02', 'C03']),
    ('rdr_reader_iter', 'mtbl/reader.c', 'reader_iter', ALL, ['C02', 'C03']),
    ('rdr_reader_get', 'mtbl/reader.c', 'reader_get', ALL, ['C02', 'C03']),
    ('rdr_reader_get_prefix', 'mtbl/reader.c', 'reader_get_prefix', ALL, ['C02', 'C03']),
    ('rdr_reader_get_range', 'mtbl/reader.c', 'reader_get_range', ALL, ['C02', 'C03']),
    ('srt_mtbl_sorter_options_init', 'mtbl/sorter.c', 'mtbl_sorter_options_init', ALL, ['C06']),
    ('srt_mtbl_sorter_options_destroy', 'mtbl/sorter.c', 'mtbl_sorter_options_destroy', ALL, ['C06']),
    ('srt_mtbl_sorter_options_set_merge_func', 'mtbl/sorter.c', 'mtbl_sorter_options_set_merge_func', ALL, ['C06']),
    ('srt_mtbl_sorter_options_set_temp_dir', 'mtbl/sorter.c', 'mtbl_sorter_options_set_temp_dir', ALL, ['C06']),
    ('srt_mtbl_sorter_options_set_max_memory', 'mtbl/sorter.c', 'mtbl_sorter_options_set_max_memory', ALL, ['C06']),
    ('srt_mtbl_sorter_options_set_threadpool', 'mtbl/sorter.c', 'mtbl_sorter_options_set_threadpool', ALL, ['C06']),
    ('srt_mtbl_sorter_get_entry_batch', 'mtbl/sorter.c', '_mtbl_sorter_get_entry_batch', ALL, ['C06']),
    ('srt_sorter_iter_seek', 'mtbl/sorter.c', 'sorter_iter_seek', ALL, ['C06']),
    ('srt_sorter_iter_next', 'mtbl/sorter.c', 'sorter_iter_next', ALL, ['C06']),
    ('src_mtbl_source_destroy', 'mtbl/source.c', 'mtbl_source_destroy', ALL, ['C02']),
    ('src_mtbl_source_iter', 'mtbl/source.c', 'mtbl_source_iter', ALL, ['C02']),
    ('tp_threadpool_init', 'mtbl/threadpool.c', 'threadpool_init', ALL, ['C13', 'C14']),
    ('tp_resultq_init', 'mtbl/threadpool.c', 'resultq_init', ALL, ['C13', 'C14']),
    ('vi_mtbl_varint_length', 'mtbl/varint.c', 'mtbl_varint_length', ALL, ['C16']),
    ('vi_mtbl_varint_length_packed', 'mtbl/varint.c', 'mtbl_varint_length_packed', ALL, ['C16']),
    ('vi_mtbl_varint_encode32', 'mtbl/varint.c', 'mtbl_varint_encode32', ALL, ['C16']),
    ('vi_mtbl_varint_encode64', 'mtbl/varint.c', 'mtbl_varint_encode64', ALL, ['C16']),
    ('vi_varint_decode', 'mtbl/varint.c', '_varint_decode', ALL, ['C16']),
    ('vi_mtbl_varint_decode32', 'mtbl/varint.c', 'mtbl_varint_decode32', ALL, ['C16']),
    ('vi_mtbl_varint_decode64', 'mtbl/varint.c', 'mtbl_varint_decode64', ALL, ['C16']),
    ('wr_mtbl_writer_options_init', 'mtbl/writer.c', 'mtbl_writer_options_init', ALL, ['C01', 'C08']),
    ('wr_mtbl_writer_options_destroy', 'mtbl/writer.c', 'mtbl_writer_options_destroy', ALL, ['C01', 'C08']),
    ('wr_mtbl_writer_options_set_compression', 'mtbl/writer.c', 'mtbl_writer_options_set_compression', ALL, ['C01', 'C08']),
    ('wr_mtbl_writer_options_set_compression_level', 'mtbl/writer.c', 'mtbl_writer_options_set_compression_level', ALL, ['C01', 'C08']),
    ('wr_mtbl_writer_options_set_block_restart_interval', 'mtbl/writer.c', 'mtbl_writer_options_set_block_restart_interval', ALL, ['C01', 'C08']),
    ('wr_mtbl_writer_options_set_threadpool', 'mtbl/writer.c', 'mtbl_writer_options_set_threadpool', ALL, ['C01', 'C08']),
    ('wr_mtbl_writer_write_block', 'mtbl/writer.c', '_mtbl_writer_write_block', ALL, ['C09', 'C20']),
    ('hp_heap_init', 'libmy/heap.c', 'heap_init', ALL, ['C04', 'C05']),
    ('hp_heap_destroy', 'libmy/heap.c', 'heap_destroy', ALL, ['C04', 'C05']),
    ('hp_heap_clip', 'libmy/heap.c', 'heap_clip', ALL, ['C04', 'C05']),
    ('hp_heap_add', 'libmy/heap.c', 'heap_add', ALL, ['C04', 'C05']),
    ('hp_heap_push', 'libmy/heap.c', 'heap_push', ALL, ['C04', 'C05']),
    ('hp_heap_peek', 'libmy/heap.c', 'heap_peek', ALL, ['C04', 'C05']),
    ('mfs_path_exists', 'libmy/my_fileset.c', 'path_exists', ALL, ['C07']),
    ('mfs_cmp_fileset_entry', 'libmy/my_fileset.c', 'cmp_fileset_entry', ALL, ['C07']),
    ('mfs_fetch_entry', 'libmy/my_fileset.c', 'fetch_entry', ALL, ['C07']),
    ('mfs_my_fileset_init', 'libmy/my_fileset.c', 'my_fileset_init', ALL, ['C07']),
    ('mfs_my_fileset_user', 'libmy/my_fileset.c', 'my_fileset_user', ALL, ['C07']),
    ('mfs_my_fileset_get', 'libmy/my_fileset.c', 'my_fileset_get', ALL, ['C07']),
    ('crc_my_crc32c_slicing', 'libmy/crc32c-slicing.c', 'my_crc32c_slicing', ALL, ['C17']),
    ('crc_my_crc32c_sse42_supported', 'libmy/crc32c-sse42.c', 'my_crc32c_sse42_supported', ALL, ['C17']),
    ('crc_my_asm_crc32_u64', 'libmy/crc32c-sse42.c', 'my_asm_crc32_u64', ALL, ['C17']),
    ('crc_my_asm_crc32_u32', 'libmy/crc32c-sse42.c', 'my_asm_crc32_u32', ALL, ['C17']),
    ('crc_my_asm_crc32_u16', 'libmy/crc32c-sse42.c', 'my_asm_crc32_u16', ALL, ['C17']),
    ('crc_my_asm_crc32_u8', 'libmy/crc32c-sse42.c', 'my_asm_crc32_u8', ALL, ['C17']),
    ('crc_my_crc32c_sse42', 'libmy/crc32c-sse42.c', 'my_crc32c_sse42', ALL, ['C17']),
    ('crc_mtbl_crc32c', 'mtbl/crc32c_wrap.c', 'mtbl_crc32c', ALL, ['C17']),
    ('crc_dispatch_c', 'libmy/crc32c.c', None, ALL, ['C17']),
    # the generic containers (function-like macros): whole files
    ('vector_h', 'libmy/vector.h', None, ALL, ['C04', 'C06', 'C09', 'C18']),
    ('ubuf_h', 'libmy/ubuf.h', None, ALL, ['C04', 'C08', 'C09', 'C18']),
]

# ---- shared mutable state (C14 / C03): file-scope and function-local variables with static storage in the library
# sources, and the assignments through pointers to the structures that several threads / iterators share ----------
LIB_SOURCES = ['libmy/crc32c.c', 'libmy/crc32c-slicing.c', 'libmy/crc32c-sse42.c', 'libmy/heap.c', 'libmy/my_fileset.c',
               'mtbl/block.c', 'mtbl/block_builder.c', 'mtbl/compression.c', 'mtbl/crc32c_wrap.c', 'mtbl/fileset.c',
               'mtbl/fixed.c', 'mtbl/iter.c', 'mtbl/merger.c', 'mtbl/reader.c', 'mtbl/sorter.c', 'mtbl/source.c',
               'mtbl/threadpool.c', 'mtbl/metadata.c', 'mtbl/varint.c', 'mtbl/writer.c',
               'libmy/ubuf.h', 'libmy/vector.h', 'libmy/my_alloc.h', 'libmy/my_time.h', 'libmy/my_byteorder.h',
               'mtbl/bytes.h', 'mtbl/mtbl-private.h', 'mtbl/threadpool.h']

def top_level_chunks(src):
    """[(depth0_text)] pieces of the file outside any braces, split at ';' and at closing braces of depth 1"""
    out = []; cur = []; depth = 0; i = 0; n = len(src)
    while i < n:
        c = src[i]
        if c in '"\'':
            j = i + 1
            while j < n and src[j] != c:
                j += 2 if src[j] == '\\' else 1
            if depth == 0: cur.append(src[i:j + 1])
            i = j + 1; continue
        if c == '{':
            if depth == 0: cur.append('{}')
            depth += 1
        elif c == '}':
            depth -= 1
            if depth == 0 and re.search(r'\)\s*\{\}$', ''.join(cur).strip()):   # end of a function definition
                out.append(''.join(cur)); cur = []
        elif depth == 0:
            if c == ';':
                out.append(''.join(cur)); cur = []
            else:
                cur.append(c)
        i += 1
    return out

def object_is_const(decl):
    """the declared object itself is const (for a pointer: const after the last '*', not a pointer to const)"""
    if '*' in decl:
        return bool(re.search(r'\bconst\b', decl[decl.rindex('*'):]))
    return bool(re.search(r'\bconst\b', decl))

def static_storage(repo):
    """(file, normalised declaration) of every object with static storage duration that is not const:
    file-scope variables (static or not) and 'static' locals"""
    res = []
    for rel in LIB_SOURCES:
        try:
            src = strip_comments(rd(repo, rel))
        except OSError:
            res.append((rel, '<missing>')); continue
        src = re.sub(r'^[ \t]*#[^\n]*(?:\\\n[^\n]*)*', '', src, flags=re.M)     # preprocessor lines (with continuations)
        for ch in top_level_chunks(src):
            t = ' '.join(ch.split())
            if not t or t.endswith('{}') and re.search(r'\)\s*\{\}$', t):
                continue                                           # function definition
            if re.match(r'(typedef|struct\s+\w+\s*(\{\})?$|enum\b|union\s+\w+\s*(\{\})?$|extern\b)', t):
                continue
            if re.search(r'\)\s*(__attribute__\s*\(\(.*\)\))?$', t) and '=' not in t:
                continue                                           # function prototype
            if object_is_const(t.split('=')[0]):
                continue
            if re.match(r'(VECTOR_GENERATE|[A-Z_]+\s*\()', t):
                continue                                           # macro invocations that generate functions
            res.append((rel, re.sub(r'\s*=.*', '', t)))
        # static locals
        for m in re.finditer(r'(?<=[;{}])\s*(static\s+[^;(){}]*?)(=[^;]*)?;', src):
            d = ' '.join(m.group(1).split())
            if object_is_const(d):
                continue
            if (rel, d) not in res:
                res.append((rel, d))
    return res

SHARED_WRITE_FILES = ['mtbl/reader.c', 'mtbl/block.c']

def functions(src):
    """[(name, signature, body)] of the function definitions of a C file"""
    out = []
    for m in re.finditer(r'(?:^|\n)([^\n;{}()#]*\n?[^\n;{}()#]*\b(\w+)\s*\(([^;{}]*)\))\s*\{', src):
        name = m.group(2)
        if name in ('if', 'while', 'for', 'switch'):
            continue
        i = m.end(); depth = 1
        while depth and i < len(src):
            c = src[i]
            if c == '{': depth += 1
            elif c == '}': depth -= 1
            i += 1
        out.append((name, m.group(3), src[m.end():i - 1]))
    return out

def struct_writes(repo):
    """(file, function, struct type, lvalue): assignments / increments through a pointer variable of type struct T *,
    and fields whose address is taken (&v->f), in the files of SHARED_WRITE_FILES"""
    res = []
    for rel in SHARED_WRITE_FILES:
        try:
            src = strip_comments(rd(repo, rel))
        except OSError:
            res.append((rel, '<missing>', '', '')); continue
        for name, sig, body in functions(src):
            types = {}
            for mm in re.finditer(r'struct\s+(\w+)\s*\*+\s*(?:const\s+)?(\w+)', sig + ';' + body):
                types.setdefault(mm.group(2), mm.group(1))
            flat = re.sub(r'\s+', '', body)
            seen = []
            for mm in re.finditer(r'(?<![\w>.])(\w+)->((?:\w+|\.|->|\[[^\]]*\])+?)(\+\+|--|(?:[+\-|&^*/%]|<<|>>)?=(?!=))', flat):
                v, lv = mm.group(1), mm.group(2)
                seen.append((types.get(v, '?'), v + '->' + lv))
            for mm in re.finditer(r'(\+\+|--)(\w+)->((?:\w+|\.|->)+)', flat):
                seen.append((types.get(mm.group(2), '?'), mm.group(2) + '->' + mm.group(3)))
            for mm in re.finditer(r'&(\w+)->((?:\w+|\.)+)(\[)?', flat):
                seen.append((types.get(mm.group(1), '?'), '&' + mm.group(1) + '->' + mm.group(2) + ('[]' if mm.group(3) else '')))
            for ty, lv in seen:
                if (rel, name, ty, lv) not in res:
                    res.append((rel, name, ty, lv))
    return res

# ---- which thread touches which field of the writer / sorter (C14) ------------------------------------------------
ACCESS_FILES = [('mtbl/writer.c', 'mtbl_writer'), ('mtbl/sorter.c', 'mtbl_sorter')]

def field_accesses(repo):
    """(file, function, struct, field, kind, statement index, guard): every syntactic access to a field of the writer /
    sorter structure through a variable of type `struct T *` (or (*v)-> for a `struct T **` parameter).
    kind: W assignment / increment, A address taken, R anything else (a read of the field; for a pointer field also every
    use of the pointee through it).  field: up to two components (m.count_entries).  guard: 'nopool' when the statement
    lies in the else-branch of `if (v->pool != NULL)` (code that runs only when there is no handler thread), else ''.
    Also (file, function, '', '<join>', 'J', statement index, ''): the statements that wait for the handler thread
    (result_handler_destroy) or call a function that does (_mtbl_writer_finish)."""
    res = []
    for rel, sty in ACCESS_FILES:
        try:
            src = strip_comments(rd(repo, rel))
        except OSError:
            res.append((rel, '<missing>', sty, '', '', 0, 0, '')); continue
        for name, sig, body in functions(src):
            vars_ = set()
            for mm in re.finditer(r'struct\s+' + sty + r'\s*\*+\s*(?:const\s+)?(\w+)', sig + ';' + body):
                vars_.add(mm.group(1))
            # a void * closure cast to the structure: struct T *x = clos;
            stmts = statements(body)
            # else-branches of the pool test
            nopool = [False] * len(stmts)
            i = 0
            while i < len(stmts):
                d, t = stmts[i]
                if re.match(r'if\((\w+)->pool!=NULL\)$', t):
                    j = i + 1
                    while j < len(stmts) and stmts[j][0] > d: j += 1          # the then-branch
                    if j < len(stmts) and stmts[j] == (d, 'else'):
                        k = j + 1
                        while k < len(stmts) and stmts[k][0] > d:
                            nopool[k] = True; k += 1
                i += 1
            for idx, (d, t) in enumerate(stmts):
                if re.search(r'\bresult_handler_destroy\(|\b_mtbl_writer_finish\(', t):
                    # the condition of the innermost enclosing if (empty at depth 0 or under another construct)
                    encl = ''
                    k = idx - 1
                    while k >= 0:
                        if stmts[k][0] == d - 1:
                            encl = stmts[k][1] if stmts[k][1].startswith('if(') else ''
                            break
                        k -= 1
                    res.append((rel, name, '', '<join>', 'J', idx, d, encl if d > 0 else ''))
                for mm in re.finditer(r'(&?)(?:\(\*(\w+)\)|(?<![\w>.])(\w+))->(\w+)((?:\.\w+)?)((?:\+\+|--|(?:[+\-|&^*/%]|<<|>>)?=(?!=))?)', t):
                    v = mm.group(2) or mm.group(3)
                    if v not in vars_:
                        continue
                    field = mm.group(4) + (mm.group(5) if mm.group(4) == 'm' else '')
                    pre = t[max(0, mm.start() - 2):mm.start()]
                    kind = 'A' if mm.group(1) == '&' else ('W' if mm.group(6) else 'R')
                    if pre.endswith('++') or pre.endswith('--'):
                        kind = 'W'
                    ent = (rel, name, sty, field, kind, idx, d, 'nopool' if nopool[idx] else '')
                    if ent not in res:
                        res.append(ent)
    return res

def coq_str(s):
    return '"' + s.replace('"', '""') + '"'

def compute(repo):
    cache = {}
    vals = {}
    for name, rel, fn, flt, props in TIES:
        if rel not in cache:
            try:
                cache[rel] = strip_comments(rd(repo, rel))
            except OSError:
                cache[rel] = ''
        body = cache[rel] if fn is None else func_body(cache[rel], fn)   # fn None: the whole file (macro-generated code)
        if body is None or body == '':
            vals[name] = [(0, '<missing>')]
        else:
            vals[name] = [(d, t) for d, t in statements(body) if re.search(flt, t)]
    return vals

def coq_list(v):
    return '[' + ';\n   '.join('(%d, %s)' % (d, coq_str(t)) for d, t in v) + ']'

def write_if_changed(path, content):
    try:
        with open(path) as f:
            if f.read() == content:
                return False
    except FileNotFoundError:
        pass
    with open(path, 'w') as f:
        f.write(content)
    return True

def main():
    repo = sys.argv[1]
    vals = compute(repo)
    if sys.argv[2] == '--expected':
        outdir = sys.argv[3]
        byprop = {}
        for name, rel, fn, flt, props in TIES:
            for p in props:
                byprop.setdefault(p, []).append((name, rel, fn))
        for p, items in sorted(byprop.items()):
            out = ['(* Source ties of %s: the statements of the C functions its model follows, as they were when the model'
                   % p, '   was written and validated against them (tools/gen_ties.py --expected).  gen/Ties.v is regenerated from',
                   '   /repo on every run; a changed statement breaks the corresponding lemma below. *)',
                   'From Coq Require Import List String.', 'From Mtbl Require Import gen.Ties.', 'Import ListNotations.', 'Local Open Scope string_scope.', '']
            for name, rel, fn in items:
                out.append('(* %s: %s *)' % (rel, fn or 'whole file'))
                out.append('Lemma tie_%s : TIE_%s =\n  %s.' % (name, name, coq_list(vals[name])))
                out.append('Proof. reflexivity. Qed.')
                out.append('')
            write_if_changed(os.path.join(outdir, 'Ties_%s.v' % p), '\n'.join(out))
        return
    outdir = sys.argv[2]
    out = ['(* GENERATED by tools/gen_ties.py from the mtbl sources - do not edit *)',
           'From Coq Require Import List String.', 'Import ListNotations.', 'Local Open Scope string_scope.', '']
    for name, rel, fn, flt, props in TIES:
        out.append('(* %s: %s *)' % (rel, fn or 'whole file'))
        out.append('Definition TIE_%s : list (nat * string) :=\n  %s.' % (name, coq_list(vals[name])))
    out.append('(* objects with static storage duration that are not const, in the sources of libmtbl *)')
    out.append('Definition STATIC_STORAGE : list (string * string) :=\n  [' +
               ';\n   '.join('(%s, %s)' % (coq_str(f), coq_str(d)) for f, d in static_storage(repo)) + '].')
    out.append('(* assignments through struct pointers / fields whose address is taken, in reader.c and block.c: (file, function, struct, lvalue) *)')
    out.append('Definition STRUCT_WRITES : list (string * string * string * string) :=\n  [' +
               ';\n   '.join('(%s, %s, %s, %s)' % tuple(coq_str(x) for x in w) for w in struct_writes(repo)) + '].')
    out.append('(* syntactic accesses to the fields of struct mtbl_writer / struct mtbl_sorter: (file, function, struct, field, kind, statement index, brace depth, guard) *)')
    out.append('Definition FIELD_ACCESSES : list (string * string * string * string * string * nat * nat * string) :=\n  [' +
               ';\n   '.join('(%s, %s, %s, %s, %s, %d, %d, %s)' % (coq_str(a[0]), coq_str(a[1]), coq_str(a[2]), coq_str(a[3]), coq_str(a[4]), a[5], a[6], coq_str(a[7]))
                              for a in field_accesses(repo)) + '].')
    ch = write_if_changed(os.path.join(outdir, 'Ties.v'), '\n'.join(out) + '\n')
    missing = [n for n, v in vals.items() if v == [(0, '<missing>')]]
    print('Ties.v %s%s' % ('updated' if ch else 'unchanged', (', functions not found: ' + ', '.join(missing)) if missing else ''))

if __name__ == '__main__':
    main()
