"""Engines that are not part of the OCaml driver."""
import json, os, subprocess, time


def tsan_engine(sh, V, B, REPO, seed, tier, only):
    """C14: ThreadSanitizer runs of real concurrent programs (harness/tsan_stress.c)."""
    t0 = time.time()
    exe = os.path.join(B, 'bin', 'tsan_stress')
    tmp = os.path.join(B, 'tmp', 'tsan')
    os.makedirs(tmp, exist_ok=True)
    scenarios = ['writers', 'sorters', 'sorters_leftover', 'sorters_exact', 'readers', 'readers_all', 'sorter_to_writer', 'firstcrc', 'mixed']
    reps = 12 if tier == 'thorough' else 3
    res = {'engine': 'tsan', 'seed': seed, 'tier': tier, 'evaluations': 0, 'distinct_nontrivial': 0,
           'rule': 'programs: 4 caller threads each with a pooled writer (zlib/zstd) sharing ONE pool of 2..16 threads; 4 caller threads with pooled sorters sharing one pool; 6 threads iterating, seeking and querying ONE reader through their own iterators (with and without verify_checksums); the first checksums of the process computed by several pool workers at once; writers and sorters mixed on one pool. Each under ThreadSanitizer, several seeds (pool sizes, key distributions). Non-trivial: every run; distinct by (program, seed).',
           'samples': [], 'distribution': {}, 'notes': {}, 'failures': []}
    if not os.path.exists(exe):
        res['error'] = 'tsan harness not built'
        return res
    idx = 0
    for sc in scenarios:
        for r in range(reps):
            s = seed * 100 + r
            if only is not None and only != idx:
                idx += 1
                continue
            env = dict(os.environ, TSAN_OPTIONS='exitcode=66 halt_on_error=1 second_deadlock_stack=1')
            try:
                p = subprocess.run([exe, sc, str(s), tmp], stdout=subprocess.PIPE, stderr=subprocess.STDOUT, timeout=300, env=env)
                rc, out = p.returncode, p.stdout.decode('utf-8', 'replace')
            except subprocess.TimeoutExpired as e:
                rc, out = 124, (e.stdout or b'').decode('utf-8', 'replace')
            res['evaluations'] += 1
            res['distinct_nontrivial'] += 1
            res['distribution'][sc] = res['distribution'].get(sc, 0) + 1
            if len(res['samples']) < 5 and r == 0:
                res['samples'].append({'program': sc, 'seed': s, 'exit': rc})
            if rc == 66 or 'WARNING: ThreadSanitizer' in out:
                i = out.find('WARNING: ThreadSanitizer')
                res['failures'].append({'kind': 'spec_violation', 'what': '[C14] ThreadSanitizer reports a data race in program "%s"' % sc,
                                        'case': {'index': idx, 'input': {'program': sc, 'seed': s, 'tsan_report': out[i:i + 3000]}}})
            elif rc != 0:
                res['failures'].append({'kind': 'spec_violation', 'what': '[C14,C13] concurrent program "%s" ended abnormally (status %d)' % (sc, rc),
                                        'case': {'index': idx, 'input': {'program': sc, 'seed': s, 'output': out[-1500:]}}})
            idx += 1
    res['wall_s'] = round(time.time() - t0, 2)
    return res
