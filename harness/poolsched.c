/* Schedule-controlled execution of mtbl/threadpool.c (compiled with -include vp_pthread.h).
 *
 * Every pthread synchronisation operation is a scheduling point.  Exactly one managed
 * thread runs at a time ("baton"); at each point the scheduler computes the set of
 * enabled threads, picks one (forced prefix from the command line, then a default or a
 * seeded random policy), applies the operation to the emulated mutex/condition state and
 * lets that thread run up to its next operation.  One trace line per step:
 *     S <step> <tid> <op> <object> [<aux>] | <enabled tids>
 * plus "R <handler> <job>" for every result delivered and a final "END ..." line.
 *
 * usage: poolsched <max_threads> <policy:default|random> <seed> <spurious:0|1> <program> [forced tids...]
 *   program: comma separated: hO / hU (create an ordered / unordered result handler),
 *            d<k> (dispatch the next job to handler k), f<k> (result_handler_destroy k), p (threadpool_destroy)
 */
#include <pthread.h>
#include <stdio.h>
#include <stdlib.h>
#include <string.h>
#include <stdint.h>
#include <stdbool.h>
#include <unistd.h>
#include "threadpool.h"

#define MAXT 64
#define MAXO 256

enum opk { OP_NONE, OP_START, OP_LOCK, OP_UNLOCK, OP_WAIT, OP_REACQ, OP_SIGNAL, OP_CREATE, OP_JOIN, OP_EXIT };
static const char *opname[] = { "none", "start", "lock", "unlock", "wait", "reacq", "signal", "create", "join", "exit" };

struct mth { bool used, finished, blocked_cond; enum opk op; int obj; int aux; pthread_cond_t wake; bool go; pthread_t real;
	     void *(*fn)(void *); void *arg; };
static struct mth T[MAXT];
static int nthreads = 0;
static pthread_mutex_t G = PTHREAD_MUTEX_INITIALIZER;
static __thread int me = -1;

/* emulated objects, named by creation context */
static void *mutex_addr[MAXO]; static int mutex_owner[MAXO]; static char mutex_name[MAXO][16]; static int nmutex = 0;
static void *cond_addr[MAXO]; static char cond_name[MAXO][16]; static int ncond = 0;
static int cond_of_thread[MAXT];      /* which condition a blocked thread waits on */
static int mutex_of_wait[MAXT];

static char ctx_name[16] = "";       /* "pool" / "q<k>" while the harness itself creates such an object; "" = a worker */
static int nworkers = 0;

static int find_mutex(void *a) { for (int i = 0; i < nmutex; i++) if (mutex_addr[i] == a) return i; fprintf(stderr, "unknown mutex\n"); exit(9); }
static int find_cond(void *a) { for (int i = 0; i < ncond; i++) if (cond_addr[i] == a) return i; fprintf(stderr, "unknown cond\n"); exit(9); }

/* policy */
static int forced[4096]; static int nforced = 0, step = 0;
static bool policy_random = false, spurious = false; static uint64_t rng = 88172645463325252ULL;
static int last_tid = 0;
static uint64_t rnd(void) { rng ^= rng << 13; rng ^= rng >> 7; rng ^= rng << 17; return rng; }

static bool enabled(int t)
{
	if (!T[t].used || T[t].finished) return false;
	if (T[t].blocked_cond) return false;
	switch (T[t].op) {
	case OP_LOCK: case OP_REACQ: return mutex_owner[T[t].obj] < 0;
	case OP_JOIN: return T[T[t].obj].finished;
	case OP_NONE: return false;
	default: return true;
	}
}

static void park(int t) { while (!T[t].go) pthread_cond_wait(&T[t].wake, &G); T[t].go = false; }

/* pick and perform steps until the calling thread [self] is the one chosen to run.
 * Called with G held, after [self] has recorded its pending operation (or finished). */
static void schedule(int self)
{
	for (;;) {
		int en[MAXT], n = 0;
		for (int t = 0; t < nthreads; t++) if (enabled(t)) en[n++] = t;
		int sp[MAXT], nsp = 0;
		if (spurious) for (int t = 0; t < nthreads; t++) if (T[t].used && !T[t].finished && T[t].blocked_cond) sp[nsp++] = t;
		if (n == 0) {
			bool all = true;
			for (int t = 0; t < nthreads; t++) if (T[t].used && !T[t].finished) all = false;
			if (all) return;        /* everything finished (main exits) */
			printf("DEADLOCK step %d\n", step); fflush(stdout); _exit(3);
		}
		int pick = -1; bool is_spurious = false;
		if (step < nforced) {
			int f = forced[step];
			if (f >= 1000) { /* spurious wake of thread f-1000 */
				int t = f - 1000;
				if (!(t < nthreads && T[t].used && T[t].blocked_cond)) { printf("INFEASIBLE step %d\n", step); fflush(stdout); _exit(4); }
				pick = t; is_spurious = true;
			} else {
				for (int i = 0; i < n; i++) if (en[i] == f) pick = f;
				if (pick < 0) { printf("INFEASIBLE step %d\n", step); fflush(stdout); _exit(4); }
			}
		} else if (policy_random) {
			if (nsp > 0 && rnd() % 16 == 0) { pick = sp[rnd() % nsp]; is_spurious = true; }
			else pick = en[rnd() % n];
		} else {
			for (int i = 0; i < n; i++) if (en[i] == last_tid) pick = last_tid;
			if (pick < 0) pick = en[0];
		}
		/* log */
		if (is_spurious) {
			printf("S %d %d spurious %s |", step, pick, cond_name[cond_of_thread[pick]]);
		} else {
			struct mth *p = &T[pick];
			const char *on = "-";
			char tmp[16];
			if (p->op == OP_LOCK || p->op == OP_UNLOCK || p->op == OP_REACQ) on = mutex_name[p->obj];
			else if (p->op == OP_WAIT || p->op == OP_SIGNAL) on = cond_name[p->obj];
			else if (p->op == OP_JOIN || p->op == OP_CREATE) { snprintf(tmp, sizeof tmp, "t%d", p->obj); on = tmp; }
			printf("S %d %d %s %s |", step, pick, opname[p->op], on);
		}
		for (int i = 0; i < n; i++) printf(" %d", en[i]);
		printf("\n");
		step++; last_tid = pick;
		/* effect */
		struct mth *p = &T[pick];
		bool runs = true;
		if (is_spurious) {
			p->blocked_cond = false; p->op = OP_REACQ; p->obj = mutex_of_wait[pick]; runs = false;
		} else switch (p->op) {
		case OP_LOCK: case OP_REACQ: mutex_owner[p->obj] = pick; break;
		case OP_UNLOCK: mutex_owner[p->obj] = -1; break;
		case OP_WAIT:
			mutex_owner[p->aux] = -1; p->blocked_cond = true; cond_of_thread[pick] = p->obj; mutex_of_wait[pick] = p->aux; runs = false; break;
		case OP_SIGNAL: {
			/* wake one waiter: lowest tid by default, random in random mode */
			int w[MAXT], nw = 0;
			for (int t = 0; t < nthreads; t++) if (T[t].used && T[t].blocked_cond && cond_of_thread[t] == p->obj) w[nw++] = t;
			if (nw > 0) {
				int c = policy_random ? w[rnd() % nw] : w[0];
				T[c].blocked_cond = false; T[c].op = OP_REACQ; T[c].obj = mutex_of_wait[c];
				printf("W %d\n", c);
			}
			break; }
		case OP_EXIT: p->finished = true; runs = false; break;
		default: break;
		}
		if (!runs) continue;
		p->op = OP_NONE;
		if (pick == self) return;
		T[pick].go = true; pthread_cond_signal(&T[pick].wake);
		if (T[self].finished) return;
		park(self);
		return;
	}
}

/* a managed thread announces its next operation and waits to be scheduled */
static void point(enum opk op, int obj, int aux)
{
	pthread_mutex_lock(&G);
	T[me].op = op; T[me].obj = obj; T[me].aux = aux;
	schedule(me);
	pthread_mutex_unlock(&G);
}

int vp_mutex_init(pthread_mutex_t *m, const pthread_mutexattr_t *a)
{
	(void) a; pthread_mutex_lock(&G);
	int i = nmutex++; mutex_addr[i] = m; mutex_owner[i] = -1;
	if (ctx_name[0]) snprintf(mutex_name[i], 16, "%s.m", ctx_name); else snprintf(mutex_name[i], 16, "w%d.m", nworkers);
	pthread_mutex_unlock(&G); return 0;
}
int vp_cond_init(pthread_cond_t *c, const pthread_condattr_t *a)
{
	(void) a; pthread_mutex_lock(&G);
	int i = ncond++; cond_addr[i] = c;
	if (ctx_name[0]) snprintf(cond_name[i], 16, "%s.c", ctx_name); else { snprintf(cond_name[i], 16, "w%d.c", nworkers); }
	pthread_mutex_unlock(&G); return 0;
}
int vp_mutex_destroy(pthread_mutex_t *m) { pthread_mutex_lock(&G); int i = find_mutex(m); mutex_addr[i] = NULL; pthread_mutex_unlock(&G); return 0; }
int vp_cond_destroy(pthread_cond_t *c) { pthread_mutex_lock(&G); int i = find_cond(c); cond_addr[i] = NULL; pthread_mutex_unlock(&G); return 0; }
int vp_mutex_lock(pthread_mutex_t *m) { pthread_mutex_lock(&G); int i = find_mutex(m); pthread_mutex_unlock(&G); point(OP_LOCK, i, 0); return 0; }
int vp_mutex_unlock(pthread_mutex_t *m) { pthread_mutex_lock(&G); int i = find_mutex(m); pthread_mutex_unlock(&G); point(OP_UNLOCK, i, 0); return 0; }
int vp_cond_signal(pthread_cond_t *c) { pthread_mutex_lock(&G); int i = find_cond(c); pthread_mutex_unlock(&G); point(OP_SIGNAL, i, 0); return 0; }
int vp_cond_wait(pthread_cond_t *c, pthread_mutex_t *m)
{
	pthread_mutex_lock(&G); int ci = find_cond(c), mi = find_mutex(m);
	/* first half: release + sleep; the thread is resumed only after REACQ has been performed */
	T[me].op = OP_WAIT; T[me].obj = ci; T[me].aux = mi;
	schedule(me);
	pthread_mutex_unlock(&G);
	return 0;
}

static void *trampoline(void *v)
{
	int t = (int)(intptr_t) v;
	me = t;
	pthread_mutex_lock(&G);
	park(t);                      /* scheduled for the first time: its START step has been performed */
	pthread_mutex_unlock(&G);
	T[t].fn(T[t].arg);
	pthread_mutex_lock(&G);
	T[t].op = OP_EXIT; T[t].obj = 0;
	schedule(t);
	pthread_mutex_unlock(&G);
	return NULL;
}
int vp_thread_create(pthread_t *t, const pthread_attr_t *a, void *(*fn)(void *), void *arg)
{
	(void) a;
	pthread_mutex_lock(&G);
	int id = nthreads++;
	T[id].used = true; T[id].fn = fn; T[id].arg = arg; T[id].op = OP_START; T[id].go = false;
	pthread_cond_init(&T[id].wake, NULL);
	if (!ctx_name[0]) nworkers++;         /* a worker: its mutex/cond were named w<nworkers> just before */
	pthread_create(&T[id].real, NULL, trampoline, (void *)(intptr_t) id);
	*t = (pthread_t)(intptr_t)(id + 1);
	pthread_mutex_unlock(&G);
	point(OP_CREATE, id, 0);
	return 0;
}
int vp_thread_join(pthread_t t, void **ret)
{
	(void) ret; int id = (int)(intptr_t) t - 1;
	point(OP_JOIN, id, 0);
	return 0;
}

/* ---- the scenario ------------------------------------------------------------------ */
static void *job_cb(void *arg) { return arg; }
static void deliver_cb(void *res, void *cbdata) { printf("R %d %d\n", (int)(intptr_t) cbdata, (int)(intptr_t) res - 1); }

int main(int argc, char **argv)
{
	if (argc < 6) { fprintf(stderr, "usage\n"); return 2; }
	int maxthreads = atoi(argv[1]);
	policy_random = strcmp(argv[2], "random") == 0;
	rng ^= (uint64_t) atoll(argv[3]) * 0x9E3779B97F4A7C15ULL; if (rng == 0) rng = 1; rnd(); rnd();
	spurious = atoi(argv[4]) != 0;
	char *program = strdup(argv[5]);
	for (int i = 6; i < argc && nforced < 4096; i++) forced[nforced++] = atoi(argv[i]);
	setvbuf(stdout, NULL, _IOFBF, 1 << 20);

	me = 0; nthreads = 1; T[0].used = true; pthread_cond_init(&T[0].wake, NULL);
	strcpy(ctx_name, "pool");
	struct threadpool *pool = threadpool_init(maxthreads);
	ctx_name[0] = 0;
	struct result_handler *rh[16]; bool ordered[16]; int nrh = 0; int njob = 0;
	for (char *tok = strtok(program, ","); tok; tok = strtok(NULL, ",")) {
		if (tok[0] == 'h') {
			snprintf(ctx_name, 16, "q%d", nrh);
			ordered[nrh] = tok[1] == 'O';
			rh[nrh] = result_handler_init(deliver_cb, (void *)(intptr_t) nrh);
			ctx_name[0] = 0; nrh++;
		} else if (tok[0] == 'd') {
			int k = atoi(tok + 1);
			printf("D %d %d\n", k, njob);
			threadpool_dispatch(pool, rh[k], ordered[k], job_cb, (void *)(intptr_t)(njob + 1)); njob++;
		} else if (tok[0] == 'f') {
			int k = atoi(tok + 1);
			result_handler_destroy(&rh[k]);
		} else if (tok[0] == 'p') {
			threadpool_destroy(&pool);
		}
	}
	pthread_mutex_lock(&G);
	printf("END steps=%d workers=%d\n", step, nworkers);
	fflush(stdout);
	_exit(0);
}
