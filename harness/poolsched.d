poolsched: poolsched.c /repo/config.h /repo/mtbl/threadpool.h
/repo/config.h:
/repo/mtbl/threadpool.h:
