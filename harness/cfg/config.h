/* config.h.  Generated from config.h.in by configure.  */
/* config.h.in.  Generated from configure.ac by autoheader.  */

/* Define if building universal (internal helper macro) */
/* #undef AC_APPLE_UNIVERSAL_BUILD */

/* Define to 1 if you have the `clock_gettime' function. */
#define HAVE_CLOCK_GETTIME 1

/* Define to 1 if you have the <dlfcn.h> header file. */
#define HAVE_DLFCN_H 1

/* Define to 1 if you have the <endian.h> header file. */
#define HAVE_ENDIAN_H 1

/* Define to 1 if you have the <inttypes.h> header file. */
#define HAVE_INTTYPES_H 1

/* Define to 1 if you have the `snappy' library (-lsnappy). */
#define HAVE_LIBSNAPPY 1

/* Define to 1 if you have the `z' library (-lz). */
#define HAVE_LIBZ 1

/* Define to 1 if you have the `madvise' function. */
#define HAVE_MADVISE 1

/* Define to 1 if you have the <minix/config.h> header file. */
/* #undef HAVE_MINIX_CONFIG_H */

/* Define to 1 if you have the `posix_madvise' function. */
#define HAVE_POSIX_MADVISE 1

/* Have PTHREAD_PRIO_INHERIT. */
#define HAVE_PTHREAD_PRIO_INHERIT 1

/* Define to 1 if you have the <stdint.h> header file. */
#define HAVE_STDINT_H 1

/* Define to 1 if you have the <stdio.h> header file. */
#define HAVE_STDIO_H 1

/* Define to 1 if you have the <stdlib.h> header file. */
#define HAVE_STDLIB_H 1

/* Define to 1 if you have the <strings.h> header file. */
#define HAVE_STRINGS_H 1

/* Define to 1 if you have the <string.h> header file. */
#define HAVE_STRING_H 1

/* Define to 1 if you have the <sys/endian.h> header file. */
/* #undef HAVE_SYS_ENDIAN_H */

/* Define to 1 if you have the <sys/stat.h> header file. */
#define HAVE_SYS_STAT_H 1

/* Define to 1 if you have the <sys/types.h> header file. */
#define HAVE_SYS_TYPES_H 1

/* Define to 1 if you have the <unistd.h> header file. */
#define HAVE_UNISTD_H 1

/* Define to 1 if you have the <wchar.h> header file. */
#define HAVE_WCHAR_H 1

/* Define to the sub-directory where libtool stores uninstalled libraries. */
#define LT_OBJDIR ".libs/"

/* Name of package */
#define PACKAGE "mtbl"

/* Define to the address where bug reports for this package should be sent. */
#define PACKAGE_BUGREPORT "https://github.com/farsightsec/mtbl/issues"

/* Define to the full name of this package. */
#define PACKAGE_NAME "mtbl"

/* Define to the full name and version of this package. */
#define PACKAGE_STRING "mtbl 1.7.1"

/* Define to the one symbol short name of this package. */
#define PACKAGE_TARNAME "mtbl"

/* Define to the home page for this package. */
#define PACKAGE_URL "https://github.com/farsightsec/mtbl"

/* Define to the version of this package. */
#define PACKAGE_VERSION "1.7.1"

/* Define to necessary symbol if this constant uses a non-standard name on
   your system. */
/* #undef PTHREAD_CREATE_JOINABLE */

/* Define to 1 if all of the C90 standard headers exist (not just the ones
   required in a freestanding environment). This macro is provided for
   backward compatibility; new code need not use it. */
#define STDC_HEADERS 1

/* Enable extensions on AIX 3, Interix.  */
#ifndef _ALL_SOURCE
# define _ALL_SOURCE 1
#endif
/* Enable general extensions on macOS.  */
#ifndef _DARWIN_C_SOURCE
# define _DARWIN_C_SOURCE 1
#endif
/* Enable general extensions on Solaris.  */
#ifndef __EXTENSIONS__
# define __EXTENSIONS__ 1
#endif
/* Enable GNU extensions on systems that have them.  */
#ifndef _GNU_SOURCE
# define _GNU_SOURCE 1
#endif
/* Enable X/Open compliant socket functions that do not require linking
   with -lxnet on HP-UX 11.11.  */
#ifndef _HPUX_ALT_XOPEN_SOCKET_API
# define _HPUX_ALT_XOPEN_SOCKET_API 1
#endif
/* Identify the host operating system as Minix.
   This macro does not affect the system headers' behavior.
   A future release of Autoconf may stop defining this macro.  */
#ifndef _MINIX
/* # undef _MINIX */
#endif
/* Enable general extensions on NetBSD.
   Enable NetBSD compatibility extensions on Minix.  */
#ifndef _NETBSD_SOURCE
# define _NETBSD_SOURCE 1
#endif
/* Enable OpenBSD compatibility extensions on NetBSD.
   Oddly enough, this does nothing on OpenBSD.  */
#ifndef _OPENBSD_SOURCE
# define _OPENBSD_SOURCE 1
#endif
/* Define to 1 if needed for POSIX-compatible behavior.  */
#ifndef _POSIX_SOURCE
/* # undef _POSIX_SOURCE */
#endif
/* Define to 2 if needed for POSIX-compatible behavior.  */
#ifndef _POSIX_1_SOURCE
/* # undef _POSIX_1_SOURCE */
#endif
/* Enable POSIX-compatible threading on Solaris.  */
#ifndef _POSIX_PTHREAD_SEMANTICS
# define _POSIX_PTHREAD_SEMANTICS 1
#endif
/* Enable extensions specified by ISO/IEC TS 18661-5:2014.  */
#ifndef __STDC_WANT_IEC_60559_ATTRIBS_EXT__
# define __STDC_WANT_IEC_60559_ATTRIBS_EXT__ 1
#endif
/* Enable extensions specified by ISO/IEC TS 18661-1:2014.  */
#ifndef __STDC_WANT_IEC_60559_BFP_EXT__
# define __STDC_WANT_IEC_60559_BFP_EXT__ 1
#endif
/* Enable extensions specified by ISO/IEC TS 18661-2:2015.  */
#ifndef __STDC_WANT_IEC_60559_DFP_EXT__
# define __STDC_WANT_IEC_60559_DFP_EXT__ 1
#endif
/* Enable extensions specified by ISO/IEC TS 18661-4:2015.  */
#ifndef __STDC_WANT_IEC_60559_FUNCS_EXT__
# define __STDC_WANT_IEC_60559_FUNCS_EXT__ 1
#endif
/* Enable extensions specified by ISO/IEC TS 18661-3:2015.  */
#ifndef __STDC_WANT_IEC_60559_TYPES_EXT__
# define __STDC_WANT_IEC_60559_TYPES_EXT__ 1
#endif
/* Enable extensions specified by ISO/IEC TR 24731-2:2010.  */
#ifndef __STDC_WANT_LIB_EXT2__
# define __STDC_WANT_LIB_EXT2__ 1
#endif
/* Enable extensions specified by ISO/IEC 24747:2009.  */
#ifndef __STDC_WANT_MATH_SPEC_FUNCS__
# define __STDC_WANT_MATH_SPEC_FUNCS__ 1
#endif
/* Enable extensions on HP NonStop.  */
#ifndef _TANDEM_SOURCE
# define _TANDEM_SOURCE 1
#endif
/* Enable X/Open extensions.  Define to 500 only if necessary
   to make mbstate_t available.  */
#ifndef _XOPEN_SOURCE
/* # undef _XOPEN_SOURCE */
#endif


/* Version number of package */
#define VERSION "1.7.1"

/* Define WORDS_BIGENDIAN to 1 if your processor stores words with the most
   significant byte first (like Motorola and SPARC, unlike Intel). */
#if defined AC_APPLE_UNIVERSAL_BUILD
# if defined __BIG_ENDIAN__
#  define WORDS_BIGENDIAN 1
# endif
#else
# ifndef WORDS_BIGENDIAN
/* #  undef WORDS_BIGENDIAN */
# endif
#endif

/* Number of bits in a file offset, on hosts where this is settable. */
/* #undef _FILE_OFFSET_BITS */

/* Define for large files, on AIX-style hosts. */
/* #undef _LARGE_FILES */
