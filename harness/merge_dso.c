/* A merge DSO for src/mtbl_merge.c (engine mg): prefix "join" has an init function whose closure the merge function
 * needs (it holds the separator); prefix "first" has no init / free function and keeps the first value. */
#include <stdint.h>
#include <stdlib.h>
#include <string.h>
struct clos { char sep; };
void *join_init_func(void) { struct clos *c = malloc(sizeof *c); c->sep = '|'; return c; }
void join_free_func(void *c) { free(c); }
void join_func(void *clos, const uint8_t *key, size_t len_key, const uint8_t *v0, size_t l0, const uint8_t *v1, size_t l1,
	       uint8_t **out, size_t *lout)
{
	struct clos *c = clos;
	(void) key; (void) len_key;
	if (c == NULL) { *out = NULL; *lout = 0; return; }   /* without its closure the function reports failure */
	*lout = l0 + 1 + l1;
	*out = malloc(*lout);
	memcpy(*out, v0, l0); (*out)[l0] = (uint8_t) c->sep; memcpy(*out + l0 + 1, v1, l1);
}
void first_func(void *clos, const uint8_t *key, size_t len_key, const uint8_t *v0, size_t l0, const uint8_t *v1, size_t l1,
		uint8_t **out, size_t *lout)
{
	(void) clos; (void) key; (void) len_key; (void) v1; (void) l1;
	*lout = l0; *out = malloc(l0 ? l0 : 1); memcpy(*out, v0, l0);
}
