/* ThreadSanitizer stress programs for C14: the concurrent uses the API allows.
 *   tsan_stress <scenario> <seed> <dir>
 * scenarios: readers_all (a shared reader per compression algorithm, six threads each), writers (several caller threads, each with a pooled writer, ONE shared pool),
 *            sorters (same with pooled sorters), readers (many threads on one reader through
 *            their own iterators), firstcrc (the process's first checksums computed by several
 *            pool workers at once), mixed.
 * Exit status 0 = ran to completion (TSan reports make the process exit with 66). */
#include <pthread.h>
#include <stdio.h>
#include <stdlib.h>
#include <string.h>
#include <stdint.h>
#include <unistd.h>
#include <fcntl.h>
#include <mtbl.h>

static const char *dir; static unsigned seed;
static pthread_barrier_t bar;
static struct mtbl_threadpool *pool;

static void merge_cat(void *clos, const uint8_t *key, size_t lk, const uint8_t *v0, size_t l0, const uint8_t *v1, size_t l1, uint8_t **out, size_t *lout)
{ (void) clos; (void) key; (void) lk; *lout = l0 + l1; *out = malloc(*lout + 1); memcpy(*out, v0, l0); memcpy(*out + l0, v1, l1); }

static void *writer_thread(void *arg)
{
	long id = (long) arg; char path[512]; snprintf(path, sizeof path, "%s/tw%ld.mtbl", dir, id); unlink(path);
	struct mtbl_writer_options *wo = mtbl_writer_options_init();
	mtbl_writer_options_set_compression(wo, (id % 2) ? MTBL_COMPRESSION_ZLIB : MTBL_COMPRESSION_ZSTD);
	mtbl_writer_options_set_block_size(wo, 1024);
	mtbl_writer_options_set_threadpool(wo, pool);
	pthread_barrier_wait(&bar);
	struct mtbl_writer *w = mtbl_writer_init(path, wo);
	mtbl_writer_options_destroy(&wo);
	char k[32], v[300]; memset(v, 'a' + id, sizeof v);
	for (int i = 0; i < 400; i++) { snprintf(k, sizeof k, "key%06d", i); mtbl_writer_add(w, (uint8_t *) k, strlen(k), (uint8_t *) v, 100 + (i * 7 + id) % 190); }
	mtbl_writer_destroy(&w);
	unlink(path);
	return NULL;
}
static void *sorter_thread(void *arg)
{
	long id = (long) arg; char spill[512]; snprintf(spill, sizeof spill, "%s", dir);
	struct mtbl_sorter_options *so = mtbl_sorter_options_init();
	mtbl_sorter_options_set_max_memory(so, 600 + 50 * id);
	mtbl_sorter_options_set_temp_dir(so, spill);
	mtbl_sorter_options_set_merge_func(so, merge_cat, NULL);
	mtbl_sorter_options_set_threadpool(so, pool);
	pthread_barrier_wait(&bar);
	struct mtbl_sorter *s = mtbl_sorter_init(so);
	mtbl_sorter_options_destroy(&so);
	char k[32], v[32];
	for (int i = 0; i < 300; i++) { snprintf(k, sizeof k, "k%03d", (int)((i * 37 + id * 11 + seed) % 97)); snprintf(v, sizeof v, "v%d", i); mtbl_sorter_add(s, (uint8_t *) k, strlen(k), (uint8_t *) v, strlen(v)); }
	struct mtbl_iter *it = mtbl_sorter_iter(s);
	const uint8_t *kk, *vv; size_t lk, lv; long n = 0;
	while (mtbl_iter_next(it, &kk, &lk, &vv, &lv) == mtbl_res_success) n++;
	mtbl_iter_destroy(&it);
	mtbl_sorter_destroy(&s);
	return NULL;
}
/* a pooled sorter dumped with mtbl_sorter_write into a writer that uses the SAME pool: workers that ran unordered
 * chunk jobs are reused for the writer's ordered block jobs */
static void *sorter_to_writer_thread(void *arg)
{
	long id = (long) arg; char spill[512]; snprintf(spill, sizeof spill, "%s", dir);
	struct mtbl_sorter_options *so = mtbl_sorter_options_init();
	mtbl_sorter_options_set_max_memory(so, 500 + 40 * id);
	mtbl_sorter_options_set_temp_dir(so, spill);
	mtbl_sorter_options_set_merge_func(so, merge_cat, NULL);
	mtbl_sorter_options_set_threadpool(so, pool);
	pthread_barrier_wait(&bar);
	struct mtbl_sorter *s = mtbl_sorter_init(so);
	mtbl_sorter_options_destroy(&so);
	char k[32], v[64], path[600];
	for (int i = 0; i < 260; i++) { snprintf(k, sizeof k, "k%03d", (int)((i * 41 + id * 7 + seed) % 113)); snprintf(v, sizeof v, "value-%d-%ld", i, id); mtbl_sorter_add(s, (uint8_t *) k, strlen(k), (uint8_t *) v, strlen(v)); }
	snprintf(path, sizeof path, "%s/stw%ld.mtbl", dir, id); unlink(path);
	struct mtbl_writer_options *wo = mtbl_writer_options_init();
	mtbl_writer_options_set_block_size(wo, 1024); mtbl_writer_options_set_threadpool(wo, pool);
	struct mtbl_writer *w = mtbl_writer_init(path, wo); mtbl_writer_options_destroy(&wo);
	if (w != NULL) { mtbl_sorter_write(s, w); mtbl_writer_destroy(&w); }
	mtbl_sorter_destroy(&s); unlink(path);
	return NULL;
}
/* large chunks through the pool, then a small left-over batch flushed by mtbl_sorter_iter after the
 * pooled chunk jobs had time to finish */
static void *sorter_leftover_thread(void *arg)
{
	long id = (long) arg; char spill[512]; snprintf(spill, sizeof spill, "%s", dir);
	struct mtbl_sorter_options *so = mtbl_sorter_options_init();
	mtbl_sorter_options_set_max_memory(so, 6000 + 500 * id);
	mtbl_sorter_options_set_temp_dir(so, spill);
	mtbl_sorter_options_set_merge_func(so, merge_cat, NULL);
	mtbl_sorter_options_set_threadpool(so, pool);
	pthread_barrier_wait(&bar);
	struct mtbl_sorter *s = mtbl_sorter_init(so);
	mtbl_sorter_options_destroy(&so);
	char k[32], v[32];
	int n_big = 2 * (int)((6000 + 500 * id) / 24) + 7;      /* two chunks of well over 64 entries, plus a few entries */
	for (int i = 0; i < n_big; i++) { snprintf(k, sizeof k, "k%05d", (int)((i * 37 + id * 11 + seed) % 4093)); snprintf(v, sizeof v, "v%d", i); mtbl_sorter_add(s, (uint8_t *) k, strlen(k), (uint8_t *) v, strlen(v)); }
	usleep(40000);
	mtbl_sorter_add(s, (uint8_t *) "dup", 3, (uint8_t *) "a", 1); mtbl_sorter_add(s, (uint8_t *) "dup", 3, (uint8_t *) "b", 1);
	struct mtbl_iter *it = mtbl_sorter_iter(s);
	const uint8_t *kk, *vv; size_t lk, lv; long n = 0;
	while (mtbl_iter_next(it, &kk, &lk, &vv, &lv) == mtbl_res_success) n++;
	mtbl_iter_destroy(&it);
	mtbl_sorter_destroy(&s);
	return NULL;
}
/* the last add lands exactly on the spill threshold (every add spills: the limit is one byte), so the batch is
 * empty when mtbl_sorter_iter is called while the last chunk jobs are still with the pool */
static void *sorter_exact_thread(void *arg)
{
	long id = (long) arg; char spill[512]; snprintf(spill, sizeof spill, "%s", dir);
	struct mtbl_sorter_options *so = mtbl_sorter_options_init();
	mtbl_sorter_options_set_max_memory(so, (seed % 2) ? 1 : 48);      /* 48 = two of the 24-byte records below */
	mtbl_sorter_options_set_temp_dir(so, spill);
	mtbl_sorter_options_set_merge_func(so, merge_cat, NULL);
	mtbl_sorter_options_set_threadpool(so, pool);
	pthread_barrier_wait(&bar);
	struct mtbl_sorter *s = mtbl_sorter_init(so);
	mtbl_sorter_options_destroy(&so);
	char k[32];
	for (int i = 0; i < 40; i++) { snprintf(k, sizeof k, "k%04d", (int)((i * 7 + id) % 23)); mtbl_sorter_add(s, (uint8_t *) k, 5, (uint8_t *) "vvv", 3); }
	struct mtbl_iter *it = (seed % 3 == 0) ? NULL : mtbl_sorter_iter(s);
	if (it != NULL) {
		const uint8_t *kk, *vv; size_t lk, lv;
		while (mtbl_iter_next(it, &kk, &lk, &vv, &lv) == mtbl_res_success) ;
		mtbl_iter_destroy(&it);
	} else if (seed % 3 == 0) {
		char path[600]; snprintf(path, sizeof path, "%s/sx%ld.mtbl", dir, id); unlink(path);
		struct mtbl_writer *w = mtbl_writer_init(path, NULL);
		mtbl_sorter_write(s, w);
		mtbl_writer_destroy(&w); unlink(path);
	}
	mtbl_sorter_destroy(&s);
	return NULL;
}
static struct mtbl_reader *shared_reader;
static void *reader_thread(void *arg)
{
	long id = (long) arg; const struct mtbl_source *src = mtbl_reader_source(shared_reader);
	const uint8_t *k, *v; size_t lk, lv; char key[32];
	pthread_barrier_wait(&bar);
	for (int round = 0; round < 20; round++) {
		struct mtbl_iter *it = mtbl_source_iter(src);
		for (int i = 0; i < 50 + id; i++) if (mtbl_iter_next(it, &k, &lk, &v, &lv) != mtbl_res_success) break;
		snprintf(key, sizeof key, "key%06d", (int)((round * 31 + id * 17) % 400));
		mtbl_iter_seek(it, (uint8_t *) key, strlen(key));
		mtbl_iter_next(it, &k, &lk, &v, &lv);
		mtbl_iter_destroy(&it);
		it = mtbl_source_get(src, (uint8_t *) key, strlen(key)); if (it) { mtbl_iter_next(it, &k, &lk, &v, &lv); mtbl_iter_destroy(&it); }
		it = mtbl_source_get_prefix(src, (uint8_t *) "key0001", 7); if (it) { while (mtbl_iter_next(it, &k, &lk, &v, &lv) == mtbl_res_success) ; mtbl_iter_destroy(&it); }
		it = mtbl_source_get_range(src, (uint8_t *) "key000100", 9, (uint8_t *) key, strlen(key)); if (it) { for (int i = 0; i < 30; i++) mtbl_iter_next(it, &k, &lk, &v, &lv); mtbl_iter_destroy(&it); }
	}
	return NULL;
}
static void make_table(const char *path, int comp)
{
	unlink(path);
	struct mtbl_writer_options *wo = mtbl_writer_options_init();
	mtbl_writer_options_set_compression(wo, comp); mtbl_writer_options_set_block_size(wo, 1024);
	struct mtbl_writer *w = mtbl_writer_init(path, wo); mtbl_writer_options_destroy(&wo);
	char k[32], v[200]; memset(v, 'r', sizeof v);
	for (int i = 0; i < 400; i++) { snprintf(k, sizeof k, "key%06d", i); mtbl_writer_add(w, (uint8_t *) k, strlen(k), (uint8_t *) v, 50 + i % 140); }
	mtbl_writer_destroy(&w);
}
static void run_threads(void *(*fn)(void *), int n)
{
	pthread_t t[16]; pthread_barrier_init(&bar, NULL, n);
	for (long i = 0; i < n; i++) pthread_create(&t[i], NULL, fn, (void *) i);
	for (int i = 0; i < n; i++) pthread_join(t[i], NULL);
	pthread_barrier_destroy(&bar);
}
int main(int argc, char **argv)
{
	if (argc < 4) return 2;
	const char *sc = argv[1]; seed = atoi(argv[2]); dir = argv[3];
	if (!strcmp(sc, "writers")) { pool = mtbl_threadpool_init(2 + seed % 15); run_threads(writer_thread, 4); mtbl_threadpool_destroy(&pool); }
	else if (!strcmp(sc, "sorters_leftover")) { pool = mtbl_threadpool_init(1 + seed % 4); run_threads(sorter_leftover_thread, 1 + seed % 3); mtbl_threadpool_destroy(&pool); }
	else if (!strcmp(sc, "sorters_exact")) { pool = mtbl_threadpool_init(1 + seed % 4); run_threads(sorter_exact_thread, 1 + seed % 3); mtbl_threadpool_destroy(&pool); }
	else if (!strcmp(sc, "sorter_to_writer")) { pool = mtbl_threadpool_init(1 + seed % 3); run_threads(sorter_to_writer_thread, 1 + seed % 2); mtbl_threadpool_destroy(&pool); }
	else if (!strcmp(sc, "sorters")) { pool = mtbl_threadpool_init(1 + seed % 6); run_threads(sorter_thread, 4); mtbl_threadpool_destroy(&pool); }
	else if (!strcmp(sc, "readers")) {
		char path[512]; snprintf(path, sizeof path, "%s/tr.mtbl", dir); make_table(path, (seed % 2) ? MTBL_COMPRESSION_NONE : MTBL_COMPRESSION_LZ4);
		struct mtbl_reader_options *ro = mtbl_reader_options_init(); mtbl_reader_options_set_verify_checksums(ro, seed % 3 == 0);
		shared_reader = mtbl_reader_init(path, ro); mtbl_reader_options_destroy(&ro);
		run_threads(reader_thread, 6);
		mtbl_reader_destroy(&shared_reader); unlink(path);
	} else if (!strcmp(sc, "readers_all")) {
		/* one shared reader per compression algorithm (every decompressor is entered by six threads at once) */
		static const int comps[] = { MTBL_COMPRESSION_NONE, MTBL_COMPRESSION_SNAPPY, MTBL_COMPRESSION_ZLIB, MTBL_COMPRESSION_LZ4,
		                             MTBL_COMPRESSION_LZ4HC, MTBL_COMPRESSION_ZSTD };
		for (unsigned ci = 0; ci < sizeof comps / sizeof comps[0]; ci++) {
			char path[512]; snprintf(path, sizeof path, "%s/tra%u.mtbl", dir, ci); make_table(path, comps[(ci + seed) % 6]);
			struct mtbl_reader_options *ro = mtbl_reader_options_init(); mtbl_reader_options_set_verify_checksums(ro, (seed + ci) % 2 == 0);
			shared_reader = mtbl_reader_init(path, ro); mtbl_reader_options_destroy(&ro);
			run_threads(reader_thread, 6);
			mtbl_reader_destroy(&shared_reader); unlink(path);
		}
	} else if (!strcmp(sc, "firstcrc")) {
		/* no checksum has been computed in this process yet: several workers compute the first ones together */
		pool = mtbl_threadpool_init(4);
		char path[512]; snprintf(path, sizeof path, "%s/tc.mtbl", dir); unlink(path);
		struct mtbl_writer_options *wo = mtbl_writer_options_init();
		mtbl_writer_options_set_compression(wo, MTBL_COMPRESSION_ZLIB); mtbl_writer_options_set_block_size(wo, 1 << 18);
		mtbl_writer_options_set_threadpool(wo, pool);
		struct mtbl_writer *w = mtbl_writer_init(path, wo); mtbl_writer_options_destroy(&wo);
		char k[32]; char *v = malloc(4096); for (int i = 0; i < 4096; i++) v[i] = (char)(i * 131 + seed);
		for (int i = 0; i < 600; i++) { snprintf(k, sizeof k, "key%06d", i); mtbl_writer_add(w, (uint8_t *) k, strlen(k), (uint8_t *) v, 4096); }
		mtbl_writer_destroy(&w); free(v); unlink(path);
		mtbl_threadpool_destroy(&pool);
	} else if (!strcmp(sc, "mixed")) {
		pool = mtbl_threadpool_init(3);
		pthread_t t[8]; pthread_barrier_init(&bar, NULL, 4);
		for (long i = 0; i < 2; i++) pthread_create(&t[i], NULL, writer_thread, (void *) i);
		for (long i = 2; i < 4; i++) pthread_create(&t[i], NULL, sorter_thread, (void *) i);
		for (int i = 0; i < 4; i++) pthread_join(t[i], NULL);
		mtbl_threadpool_destroy(&pool);
	} else return 2;
	return 0;
}
