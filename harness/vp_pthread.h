/* Force-included when compiling mtbl/threadpool.c for the schedule-controlled harness:
 * every pthread synchronisation operation becomes a scheduling point of
 * harness/poolsched.c (one thread runs at a time; the schedule decides who). */
#ifndef VP_PTHREAD_H
#define VP_PTHREAD_H
#include <pthread.h>
int vp_mutex_init(pthread_mutex_t *m, const pthread_mutexattr_t *a);
int vp_mutex_destroy(pthread_mutex_t *m);
int vp_mutex_lock(pthread_mutex_t *m);
int vp_mutex_unlock(pthread_mutex_t *m);
int vp_cond_init(pthread_cond_t *c, const pthread_condattr_t *a);
int vp_cond_destroy(pthread_cond_t *c);
int vp_cond_wait(pthread_cond_t *c, pthread_mutex_t *m);
int vp_cond_signal(pthread_cond_t *c);
int vp_thread_create(pthread_t *t, const pthread_attr_t *a, void *(*fn)(void *), void *arg);
int vp_thread_join(pthread_t t, void **ret);
#define pthread_mutex_init vp_mutex_init
#define pthread_mutex_destroy vp_mutex_destroy
#define pthread_mutex_lock vp_mutex_lock
#define pthread_mutex_unlock vp_mutex_unlock
#define pthread_cond_init vp_cond_init
#define pthread_cond_destroy vp_cond_destroy
#define pthread_cond_wait vp_cond_wait
#define pthread_cond_signal vp_cond_signal
#define pthread_create vp_thread_create
#define pthread_join vp_thread_join
#endif
